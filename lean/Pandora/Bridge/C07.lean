/-
Bridge C07: the facts regenerated from the CURRENT source of the ammo decoders (`Pandora.Gen.AmmoDec`, rewritten on every
check run by /verif/gen, area `ammodec`) are the ones the byte-level model `Pandora.Model.C07` is written for.

A change of the read primitive (ReadString → ReadLine / ReadBytes / ReadSlice, another delimiter, a Scanner with another
buffer limit, with a limit on some constructions only, or with its own split function, a Reader in place of the Scanner), of a
separator, bracket, length bound, of the method or URL prefix given to `Ammo.Setup`, of the origin of the header map stored
in the ammo (a clone of the accumulator), or of the json tags of `entity` changes the regenerated text and breaks a lemma
here — and with it the build of `Pandora.Props.C07`, which imports this file.
-/
import Pandora.Gen.AmmoDec
import Pandora.Model.C07
import Pandora.Model.C07Heap
import Pandora.Model.C07Go
import Pandora.Model.C07Prov

set_option linter.unusedVariables false
set_option linter.unusedSimpArgs false

namespace Pandora.Bridge.C07
open Pandora.Model.C07 Pandora.Gen.AmmoDec

/-! ### how the lines are read -/

/-- uri: a `bufio.Scanner` with the default split function, every construction configured with `Buffer(nil, math.MaxInt)`
(`newLineScanner`, /repo 66b1841) -/
theorem uriReader_eq : uriReader = uriReaderM := rfl

/-- uripost: `ReadString('\n')`, no limit on the line length -/
theorem uripostReader_eq : uripostReader = uripostReaderM := rfl

/-- raw: `ReadString('\n')` -/
theorem rawReader_eq : rawReader = rawReaderM := rfl

/-- what the Scanner of the current source means for a line: no token limit — the pass function of the model for /repo
is `uriPass = uriPassLim none` (a decoder with the default buffer, `LineReader.scanner 65536`, would be
`uriPassLim (some maxTok)`: `C07_uri_line_limit`, `C07_uri_roundtrip_counterexample`) -/
theorem uriLimit_none : (match uriReader with | .scanner m => scanLimit m | _ => some 0) = uriLimitM ∧ uriLimitM = none := by
  decide

/-! ### what is done with a line -/

/-- a line whose first byte (after trimming) is `[` is a header line; target and tag are separated by one blank -/
theorem marks_eq : uriHeaderMark = LBR.toNat ∧ uripostHeaderMark = LBR.toNat ∧ uriTagSep = [SP] := by decide

/-- `Ammo.Setup("GET", …)` / `Ammo.Setup("POST", …)` -/
theorem methods_eq : uriMethod = getBytes ∧ uripostMethod = postBytes := by decide

/-- the ammo stores a CLONE of the header accumulator: EVERY value the variable given to `Ammo.Setup` ever holds in
`readLine` / `readBlock` is `<http.Header>.Clone()` (whatever the variables are called and however the statements are
ordered).  The model's `hdrs := h` is a value; `Pandora.Model.C07Heap` + `C07_clone_isolates` show that with this origin
later header lines of the pass cannot reach a delivered ammo, whenever its request is built -/
theorem headerOrigin_eq : uriHeaderOrigin = .clone ∧ uripostHeaderOrigin = .clone := ⟨rfl, rfl⟩

/-- … hence the decoders are the copying system of the reference-level model, for every `headers` option -/
theorem copies_eq (cfg : Hdrs) : copiesOf uriHeaderOrigin cfg = true ∧ copiesOf uripostHeaderOrigin cfg = true := ⟨rfl, rfl⟩

/-- at the end of a pass the accumulator (the field `Scan` passes to `readLine` / `readBlock`) is given a fresh empty
map or is emptied in place: either way the header lines of the pass that ended are forgotten
(`C07_pass_reset_isolates`: with cloned ammo both are right; `C07_pass_reset_needed`: doing nothing is not) -/
theorem passReset_forgets : uriPassReset.forgets = true ∧ uripostPassReset.forgets = true := ⟨rfl, rfl⟩

/-! ### `util.DecodeHeader`, `uripost.DecodeURI`, `raw.DecodeHeader` -/

/-- `decodeHeader`: `len(h) < 3 || h[0] != '[' || h[len(h)-1] != ']'`, the separator `:` -/
theorem decodeHeader_facts : hdrMinLen = 3 ∧ hdrOpen = LBR.toNat ∧ hdrClose = RBR.toNat ∧ hdrSep = [COLON] := by
  refine ⟨rfl, by decide, by decide, by decide⟩

/-- `decodeURI`: the parts are separated (and the tag re-joined) by one blank; fewer than 2 parts is an error -/
theorem decodeURI_facts : decodeURISep = [SP] ∧ decodeURIMinParts = 2 := by
  refine ⟨by decide, rfl⟩

/-- `rawDecodeHeader`: size and tag are separated by one blank -/
theorem rawDecodeHeader_facts : rawHeaderSep = [SP] := by decide

/-! ### the string helpers, regenerated statement by statement (round 3)

`decodeHeaderG`, `decodeURIG`, `rawDecodeHeaderG` are the Go functions `util.DecodeHeader`, `uripost.DecodeURI`,
`raw.DecodeHeader` re-translated from the current source (named results, early returns, `if init; cond`, index and
slice expressions as partial operations).  They compute, for EVERY input, what the model's `decodeHeader`, `decodeURI`,
`rawDecodeHeader` compute, and never reach a panic. -/

/-- how the Go sources name the errors of the model -/
def errTag : Err → String
  | .hdrformat => "ErrHeaderFormat"
  | .emptykey => "ErrEmptyKey"
  | .wrongsize => "ErrWrongSize"
  | .ammoformat => "ErrAmmoFormat"
  | e => e.name

/-- Go's `(values…, err)`: the values count when `err` is nil; `none` = the function panicked -/
def goResult2 {α β : Type} (r : Except String (α × β × Option String)) : Option (Except String (α × β)) :=
  match r with
  | .error _ => none
  | .ok (a, b, none) => some (.ok (a, b))
  | .ok (_, _, some e) => some (.error e)

def goResult3 {α β γ : Type} (r : Except String (α × β × γ × Option String)) : Option (Except String (α × β × γ)) :=
  match r with
  | .error _ => none
  | .ok (a, b, c, none) => some (.ok (a, b, c))
  | .ok (_, _, _, some e) => some (.error e)

def modelResult {α : Type} (r : Except Err α) : Option (Except String α) :=
  match r with
  | .ok a => some (.ok a)
  | .error e => some (.error (errTag e))

/-- a list of at least three elements is its first, its middle and its last -/
theorem three_parts {α : Type} (h : List α) (hl : ¬ h.length < 3) :
    ∃ a mid z, h = a :: (mid ++ [z]) ∧ mid ≠ [] := by
  match h with
  | [] => simp at hl
  | a :: r =>
    have hr : r ≠ [] := by intro e; subst e; simp at hl
    refine ⟨a, r.dropLast, r.getLast hr, by rw [List.dropLast_concat_getLast hr], ?_⟩
    intro e
    have : r.dropLast.length = 0 := by rw [e]; rfl
    simp only [List.length_dropLast, List.length_cons] at this hl
    omega

theorem goIdx_zero_cons {α : Type} (a : α) (r : List α) : goIdx (a :: r) 0 = some a := by
  simp [goIdx]

theorem goIdx_last {α : Type} (a : α) (mid : List α) (z : α) :
    goIdx (a :: (mid ++ [z])) (((a :: (mid ++ [z])).length : Int) - 1) = some z := by
  have hlen : (((a :: (mid ++ [z])).length : Int) - 1).toNat = mid.length + 1 := by
    simp only [List.length_cons, List.length_append, List.length_nil]; omega
  have hc : 0 ≤ (((a :: (mid ++ [z])).length : Int) - 1) ∧ (((a :: (mid ++ [z])).length : Int) - 1) < ((a :: (mid ++ [z])).length : Int) := by
    simp only [List.length_cons, List.length_append, List.length_nil]; omega
  unfold goIdx
  rw [if_pos hc, hlen]
  simp

theorem goSlice_mid {α : Type} (a : α) (mid : List α) (z : α) :
    goSlice (a :: (mid ++ [z])) 1 (((a :: (mid ++ [z])).length : Int) - 1) = some mid := by
  have hc : (0 : Int) ≤ 1 ∧ (1 : Int) ≤ (((a :: (mid ++ [z])).length : Int) - 1)
      ∧ (((a :: (mid ++ [z])).length : Int) - 1) ≤ ((a :: (mid ++ [z])).length : Int) := by
    simp only [List.length_cons, List.length_append, List.length_nil]; omega
  have hn : ((((a :: (mid ++ [z])).length : Int) - 1) - 1).toNat = mid.length := by
    simp only [List.length_cons, List.length_append, List.length_nil]; omega
  unfold goSlice
  rw [if_pos hc, hn]
  simp

/-- **`util.DecodeHeader` as it is in the source = `decodeHeader` of the model**, for every string; it never panics
(the index and slice expressions are guarded by the length test) -/
theorem decodeHeaderG_eq (ht : decodeHeaderG?.isSome = true) (h : Bytes) :
    goResult2 (decodeHeaderG h) = modelResult (decodeHeader h) := by
  first
  | exact absurd ht (by decide)      -- the helper was not translated in this run: nothing is claimed
  | (
    by_cases hl : h.length < 3
    · have hi : ((h.length : Int) < 3) := by omega
      simp [decodeHeaderG, decodeHeader, hl, hi, goResult2, modelResult, errTag]
    · obtain ⟨a, mid, z, rfl, _⟩ := three_parts h hl
      have hi : ¬ (((a :: (mid ++ [z])).length : Int) < 3) := by
        simp only [List.length_cons, List.length_append, List.length_nil] at hl ⊢; omega
      have hdrop : ((a :: (mid ++ [z])).drop 1).dropLast = mid := by simp
      have hlast : (a :: (mid ++ [z])).getLast? = some z := by
        have : a :: (mid ++ [z]) = (a :: mid) ++ [z] := rfl
        rw [this, List.getLast?_append]; rfl
      unfold decodeHeaderG decodeHeader
      simp only [hi, hl, decide_false, Bool.false_eq_true, if_false, goIdx_zero_cons, goIdx_last, goSlice_mid, hdrop, hlast,
        List.head?_cons, Bool.false_or]
      by_cases ha : a = 91
      · by_cases hz : z = 93
        · subst ha; subst hz
          by_cases hc : (cut 58 mid).2.2 = true
          · by_cases hk : trimSpace (cut 58 mid).1 = []
            · simp [hc, hk, LBR, RBR, COLON, goResult2, modelResult, errTag]
            · simp [hc, hk, LBR, RBR, COLON, goResult2, modelResult]
          · simp [hc, LBR, RBR, COLON, goResult2, modelResult, errTag]
        · subst ha
          have : (z != 93) = true := by simpa using hz
          have h2 : (some z != some RBR) = true := by simpa [RBR] using hz
          simp [this, h2, LBR, goResult2, modelResult, errTag]
      · have : (a != 91) = true := by simpa using ha
        have h2 : (some a != some LBR) = true := by simpa [LBR] using ha
        simp [this, h2, goResult2, modelResult, errTag]
    )

/-- `x[2:]` of a list with at least two elements -/
theorem goSlice_from2 {α : Type} (a b : α) (r : List α) :
    goSlice (a :: b :: r) 2 ((a :: b :: r).length : Int) = some r := by
  have hc : (0 : Int) ≤ 2 ∧ (2 : Int) ≤ ((a :: b :: r).length : Int) ∧ ((a :: b :: r).length : Int) ≤ ((a :: b :: r).length : Int) := by
    simp only [List.length_cons]; omega
  have hn : (((a :: b :: r).length : Int) - 2).toNat = r.length := by
    simp only [List.length_cons]; omega
  unfold goSlice
  rw [if_pos hc, hn]
  simp

theorem goIdx_one_cons {α : Type} (a b : α) (r : List α) : goIdx (a :: b :: r) 1 = some b := by
  have hc : (0 : Int) ≤ 1 ∧ (1 : Int) < ((a :: b :: r).length : Int) := by
    simp only [List.length_cons]; omega
  unfold goIdx
  rw [if_pos hc]
  rfl

/-- **`uripost.DecodeURI` as it is in the source = `decodeURI` of the model** (Go's `(bodySize, uri, tag, err)`) -/
theorem decodeURIG_eq (ht : decodeURIG?.isSome = true) (s : Bytes) :
    goResult3 (decodeURIG s) = modelResult (decodeURI s) := by
  first
  | exact absurd ht (by decide)      -- the helper was not translated in this run: nothing is claimed
  | (
    unfold decodeURIG decodeURI
    cases hp : splitOn 32 s with
    | nil => simp [SP, hp, goResult3, modelResult, errTag]
    | cons sz r =>
      cases r with
      | nil => simp [SP, hp, goResult3, modelResult, errTag]
      | cons uri rest =>
        have hi : ¬ (((sz :: uri :: rest).length : Int) < 2) := by
          simp only [List.length_cons]; omega
        simp only [SP, hp, hi, decide_false, Bool.false_eq_true, if_false, goIdx_zero_cons, goIdx_one_cons, goSlice_from2]
        cases rest with
        | nil =>
          cases ha : atoi sz <;> simp [goAtoi, ha, goResult3, modelResult, errTag, join]
        | cons t ts =>
          have hg : (((sz :: uri :: t :: ts).length : Int) > 2) := by simp only [List.length_cons]; omega
          have hg' : ((2 : Int) < ((sz :: uri :: t :: ts).length : Int)) := hg
          simp only [hg, hg', decide_true, if_true]
          cases ha : atoi sz <;> simp [goAtoi, ha, goResult3, modelResult, errTag]
    )

/-- Go's `(reqSize, tag, err)`: an error exactly when the model has none, else the same size and tag -/
theorem rawDecodeHeaderG_eq (ht : rawDecodeHeaderG?.isSome = true) (s : Bytes) :
    goResult2 (rawDecodeHeaderG s) =
      some (match rawDecodeHeader s with
            | some nt => .ok nt
            | none => .error "invalid payload size line `%s`. expect `%%d %%s`") := by
  first
  | exact absurd ht (by decide)      -- the helper was not translated in this run: nothing is claimed
  | (
    unfold rawDecodeHeaderG rawDecodeHeader
    cases ha : atoi (cut 32 s).1 with
    | none => simp [SP, goAtoi, ha, goResult2]
    | some n => simp [SP, goAtoi, ha, goResult2]
    )


/-! ### http/json -/

/-- `url := "http://" + Host + URI` (model: `entityAmmo`), and the json names of the entity's fields (the harness
renders entities with exactly these names) -/
theorem json_facts :
    jsonURLPrefix = httpPrefix ∧
    entityFields = [("body", "string"), ("headers", "map[string]string"), ("host", "string"), ("method", "string"),
      ("tag", "string"), ("uri", "string")] := by
  refine ⟨by decide, rfl⟩

/-! ### round 4 — the provider side: registrations, `uris` option, delivery counters -/

/-- `Import` registers the provider types `http`, `http/json`, `raw`, `uri`, `uripost`; every format's own type forces the
decoder of that format, `http` leaves the choice to the `decoder` option (vacuous in a run where the registrations are not
written as plain statements: then the differential runs `via=reg` / `via=http` alone tie the table) -/
theorem registrations_eq : ∀ t, registrationsG? = some t → t = regTable := by
  intro t h; cases h <;> decide

/-- the decoder names of the config are the format names the model uses, and `IsValid` accepts exactly those -/
theorem decoderTypes_eq :
    decoderTypesG.map (·.2) = ["jsonline", "raw", "uri", "uripost"] ∧ (∀ v, validDecodersG? = some v → v = validDecoders) := by
  refine ⟨by decide, ?_⟩
  intro v h; cases h <;> decide

/-- the `uris` option is joined with a newline: `urisFile` -/
theorem urisSep_eq : ∀ s, urisSepG? = some s → s = [LF] := by
  intro s h; cases h <;> decide

/-- the delivery counters (index into the preloaded slice / the http/json array, the count compared with `Limit`) are
integers of at least 63 value bits: no run reaches the point where they wrap (`C07_counter_width`; with 16 bits the
order breaks after 65536 deliveries: `C07_counter_narrow_counterexample`) -/
theorem counterBits_ok :
    (∀ b, preloadIndexBits? = some b → 63 ≤ b) ∧ (∀ b, fullScanCounterBits? = some b → 63 ≤ b)
      ∧ (∀ b, arrayIndexBits? = some b → 63 ≤ b) := by
  refine ⟨?_, ?_, ?_⟩ <;> intro b h <;> cases h <;> decide

/-! ### round 6: what a built request shares with its entry -/

/-- `(*ammo.Ammo).BuildRequest` and `(*ammo.RawAmmo).BuildRequest` (with everything they call inside the module): the
request's `*url.URL` and its header map are objects made during the build (`http.NewRequest` / `http.ReadRequest` and
nothing that assigns `req.URL` / `req.Header` an object that outlives the build) — the `UrlOrigin.fresh` system of
`Pandora.Model.C07Build`, for which `C07_build_pure` holds (an entry that hands out its cached `*url.URL`, seeded change
C07-r6-1, regenerates `alias`: `C07_build_alias_counterexample`) -/
theorem buildOrigins_fresh :
    ammoBuildUrlOrigin = .fresh ∧ ammoBuildHdrOrigin = .fresh ∧ rawAmmoBuildUrlOrigin = .fresh ∧ rawAmmoBuildHdrOrigin = .fresh :=
  ⟨rfl, rfl, rfl, rfl⟩


end Pandora.Bridge.C07
