/-
Bridge C07: the facts regenerated from the CURRENT source of the ammo decoders (`Pandora.Gen.AmmoDec`, rewritten on every
check run by /verif/gen, area `ammodec`) are the ones the byte-level model `Pandora.Model.C07` is written for.

A change of the read primitive (ReadString → ReadLine / ReadBytes / ReadSlice, another delimiter, a Scanner with its own
buffer or split function, a Reader in place of the Scanner), of a
separator, bracket, length bound, of the method or URL prefix given to `Ammo.Setup`, of the origin of the header map stored
in the ammo (a clone of the accumulator), or of the json tags of `entity` changes the regenerated text and breaks a lemma
here — and with it the build of `Pandora.Props.C07`, which imports this file.
-/
import Pandora.Gen.AmmoDec
import Pandora.Model.C07
import Pandora.Model.C07Heap

namespace Pandora.Bridge.C07
open Pandora.Model.C07 Pandora.Gen.AmmoDec

/-! ### how the lines are read -/

/-- uri: a `bufio.Scanner` with the default split function and buffer, token limit `bufio.MaxScanTokenSize` = `maxTok` -/
theorem uriReader_eq : uriReader = uriReaderM := rfl

/-- uripost: `ReadString('\n')`, no limit on the line length -/
theorem uripostReader_eq : uripostReader = uripostReaderM := rfl

/-- raw: `ReadString('\n')` -/
theorem rawReader_eq : rawReader = rawReaderM := rfl

/-- the Scanner limit of the model is the toolchain's `bufio.MaxScanTokenSize` -/
theorem maxTok_eq : uriReader = .scanner maxTok := rfl

/-! ### what is done with a line -/

/-- a line whose first byte (after trimming) is `[` is a header line; target and tag are separated by one blank -/
theorem marks_eq : uriHeaderMark = LBR.toNat ∧ uripostHeaderMark = LBR.toNat ∧ uriTagSep = [SP] := by decide

/-- `Ammo.Setup("GET", …)` / `Ammo.Setup("POST", …)` -/
theorem methods_eq : uriMethod = getBytes ∧ uripostMethod = postBytes := by decide

/-- the ammo stores a CLONE of the header accumulator: EVERY value the variable given to `Ammo.Setup` ever holds in
`readLine` / `readBlock` is `<http.Header>.Clone()` (whatever the variables are called and however the statements are
ordered).  The model's `hdrs := h` is a value; `Pandora.Model.C07Heap` + `C07_clone_isolates` show that with this origin
later header lines of the pass cannot reach a delivered ammo, whenever its request is built -/
theorem headerOrigin_eq : uriHeaderOrigin = .clone ∧ uripostHeaderOrigin = .clone := ⟨rfl, rfl⟩

/-- … hence the decoders are the copying system of the reference-level model, for every `headers` option -/
theorem copies_eq (cfg : Hdrs) : copiesOf uriHeaderOrigin cfg = true ∧ copiesOf uripostHeaderOrigin cfg = true := ⟨rfl, rfl⟩

/-- at the end of a pass the accumulator (the field `Scan` passes to `readLine` / `readBlock`) is given a fresh empty
map or is emptied in place: either way the header lines of the pass that ended are forgotten
(`C07_pass_reset_isolates`: with cloned ammo both are right; `C07_pass_reset_needed`: doing nothing is not) -/
theorem passReset_forgets : uriPassReset.forgets = true ∧ uripostPassReset.forgets = true := ⟨rfl, rfl⟩

/-! ### `util.DecodeHeader`, `uripost.DecodeURI`, `raw.DecodeHeader` -/

/-- `decodeHeader`: `len(h) < 3 || h[0] != '[' || h[len(h)-1] != ']'`, the separator `:` -/
theorem decodeHeader_facts : hdrMinLen = 3 ∧ hdrOpen = LBR.toNat ∧ hdrClose = RBR.toNat ∧ hdrSep = [COLON] := by
  refine ⟨rfl, by decide, by decide, by decide⟩

/-- `decodeURI`: the parts are separated (and the tag re-joined) by one blank; fewer than 2 parts is an error -/
theorem decodeURI_facts : decodeURISep = [SP] ∧ decodeURIMinParts = 2 := by
  refine ⟨by decide, rfl⟩

/-- `rawDecodeHeader`: size and tag are separated by one blank -/
theorem rawDecodeHeader_facts : rawHeaderSep = [SP] := by decide

/-! ### http/json -/

/-- `url := "http://" + Host + URI` (model: `entityAmmo`), and the json names of the entity's fields (the harness
renders entities with exactly these names) -/
theorem json_facts :
    jsonURLPrefix = httpPrefix ∧
    entityFields = [("Host", "host", "string"), ("Method", "method", "string"), ("URI", "uri", "string"),
      ("Headers", "headers", "map[string]string"), ("Tag", "tag", "string"), ("Body", "body", "string")] := by
  refine ⟨by decide, rfl⟩

end Pandora.Bridge.C07
