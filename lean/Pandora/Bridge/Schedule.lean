/-
Bridge lemmas: what the REGENERATED definitions (current /repo source) compute,
in the closed forms the C01 theorems are stated about.  A change of the Go
arithmetic that is not an algebraic identity breaks one of these lemmas.
(The line profile's closed form, the validation predicates and the doAtSchedule state machine are bridged in
`Pandora/Bridge/C01.lean`; this file is also used by C12.)
-/
import Pandora.Gen.Schedule
import Pandora.Proofs.LineMath

set_option linter.unusedTactic false
set_option linter.unreachableTactic false
set_option linter.unusedSimpArgs false

namespace Pandora.Bridge.Schedule
open Pandora Pandora.Gen.Schedule Pandora.Proofs.LineMath

/-- duration in seconds -/
noncomputable def secs (D : ℤ) : ℝ := (D : ℝ) / 1000000000

theorem secs_pos {D : ℤ} (h : 1000000 ≤ D) : 0 < secs D := by
  unfold secs
  have : (0:ℝ) < (D:ℝ) := by exact_mod_cast (by omega : (0:ℤ) < D)
  positivity

theorem secs_mul (D : ℤ) : secs D * 1000000000 = (D : ℝ) := by unfold secs; ring

theorem NewOnce_eq (n : ℤ) : NewOnce n = Sched.doAt 0 n (fun _ => 0) := rfl

/-- `int64(math.Trunc(x))`, `int64(float64(int64(x)))`: truncating twice is truncating once -/
theorem f2i_cast_f2i (x : ℝ) : Go.f2i ((Go.f2i x : ℤ) : ℝ) = Go.f2i x := by
  unfold Go.f2i
  split_ifs with h1 h2 h2
  · exact Int.floor_intCast _
  · exact absurd (by exact_mod_cast Int.floor_nonneg.mpr h1 : (0:ℝ) ≤ ((⌊x⌋ : ℤ) : ℝ)) h2
  · exact Int.floor_intCast _
  · exact Int.ceil_intCast _

theorem NewConst_eq (ops : ℝ) (D : ℤ) (h : 0 ≤ ops) :
    NewConst ops D = Sched.doAt D (Go.f2i (ops * secs D)) (fun i => Go.f2i ((i : ℝ) * (1000000000 / ops))) := by
  unfold NewConst constDoAt secs
  schedule_aux_unfold
  have : ¬ ops < 0 := not_lt.mpr h
  try simp only [this, if_false]
  try simp only [f2i_cast_f2i]
  -- up to commutative-ring identities of the two float expressions (a reordering of factors is not a change)
  all_goals
    refine congrArg₂ (Sched.doAt D) ?_ ?_
    · congr 1 <;> ring
    · funext i; congr 1 <;> ring

/-- slope of the line profile, operations per second² -/
noncomputable def slope (f t : ℝ) (D : ℤ) : ℝ := (t - f) / secs D

/-- a flat line IS the const profile of the same rate. Either the source says so (`if from == to { return NewConst(…) }`)
or — the shortcut is not needed with the cancellation-free form of `lineDoAt` — the line formula with slope 0 computes
the same count and the same instants: √(b²) = b, 2·10⁹·i/(b + b) = i·(10⁹/b), and for b = 0 both are 0 (Go: no operation
at all, n = 0). -/
theorem NewLine_flat (f : ℝ) (D : ℤ) (hf : 0 ≤ f) : NewLine f f D = NewConst f D := by
  first
  | (unfold NewLine; schedule_aux_unfold; simp; done)
  | (rw [NewConst_eq f D hf]
     unfold NewLine lineDoAt secs
     schedule_aux_unfold
     try simp only [f2i_cast_f2i]
     refine congrArg₂ (Sched.doAt D) ?_ ?_
     · congr 1
       simp only [sub_self, zero_div, zero_mul, mul_zero, zero_add]
       try ring
     · funext i
       simp only [sub_self, zero_div, zero_mul, mul_zero, zero_add]
       have hsq : Real.sqrt (f * f) = f := Real.sqrt_mul_self hf
       have hsq2 : Real.sqrt (f ^ 2) = f := Real.sqrt_sq hf
       try simp only [hsq, hsq2]
       split_ifs with h0
       · subst h0; simp [Go.f2i]
       · congr 1
         rcases eq_or_ne f 0 with hf0 | hf0
         · subst hf0; simp
         · field_simp
           ring)

theorem NewStep_flat (f : ℝ) (s D : ℤ) : NewStep f f s D = NewConst f D := by
  unfold NewStep; schedule_aux_unfold; simp

theorem NewStep_eq (f t : ℝ) (s D : ℤ) (h : f ≠ t) :
    NewStep f t s D = Sched.composite ((Go.loopLE f t (s : ℝ)).map (fun r => NewConst r D)) := by
  unfold NewStep
  schedule_aux_unfold
  simp only [h, h.symm, if_false, List.nil_append]
  congr 1
  induction (Go.loopLE f t (s:ℝ)) with
  | nil => rfl
  | cons x xs ih => simp [List.flatMap_cons, ih]

theorem NewInstanceStep_eq (f t s D : ℤ) :
    NewInstanceStep f t s D = Sched.composite
      (NewOnce f :: (Go.loopLEInt (f + s) t s).flatMap (fun _ => [NewConst 0 D, NewOnce s])) := by
  unfold NewInstanceStep
  simp

end Pandora.Bridge.Schedule
