/-
Bridge lemmas for C06: what the REGENERATED tables of `Pandora.Gen.Phout` (current /repo source of
core/aggregator/netsample) say, against the model the C06 theorems are stated about. A change of the
field-index constants, of a setter, of the statement sequence of `appendPhout`, of a constant or of the
shape of `appendTimestamp`, or of the line terminator breaks one of these lemmas.
-/
import Pandora.Gen.Phout
import Pandora.Proofs.C06Phout

namespace Pandora.Bridge.Phout
open Pandora.Model.Phout

def lookupS (k : String) (tbl : List (String × String)) : Option String :=
  (tbl.find? (fun e => e.1 == k)).map (·.2)

/-- the index constants are exactly 0 … 9 -/
theorem fieldKeys_indices : Gen.Phout.fieldKeys.map (·.2) = List.range 10 := by decide

theorem fieldsNum_eq : Gen.Phout.fieldsNum = fieldsNum ∧ Gen.Phout.fieldsArrayLen = fieldsNum := by decide

/-- the regenerated index constants, in index order and read through `keyMeaning`, give the column
order of the model, which is the documented phout order -/
theorem field_order :
    Gen.Phout.fieldKeys.map (fun kv => lookupS kv.1 keyMeaning) = modelOrder.map some ∧
    modelOrder = documentedOrder := by
  constructor
  · simp [Gen.Phout.fieldKeys, lookupS, keyMeaning, modelOrder]
  · rfl

/-- every regenerated setter writes the index constant of the column its name documents -/
theorem setters_ok :
    Gen.Phout.setters.all (fun mk =>
      match lookupS mk.1 setterMeaning with
      | some col => lookupS mk.2 keyMeaning == some col
      | none => false) = true := by
  simp [Gen.Phout.setters, lookupS, setterMeaning, keyMeaning]

/-- and every setter the model knows about still exists -/
theorem setters_cover :
    setterMeaning.all (fun mc => Gen.Phout.setters.any (fun mk => mk.1 == mc.1)) = true := by
  simp [Gen.Phout.setters, setterMeaning]

/-- `appendPhout`, statement by statement, is the model's `encodeBody` -/
theorem appendPhout_eq (s : Sample) (withId : Bool) :
    runStmts s withId Gen.Phout.appendPhoutStmts = encodeBody s withId := by
  unfold encodeBody
  cases hts : appendTimestamp s.ms with
  | none => simp [Gen.Phout.appendPhoutStmts, runStmts, Stmt.run, Atom.run, hts]
  | some ts =>
    cases withId <;>
    simp [Gen.Phout.appendPhoutStmts, runStmts, Stmt.run, Atom.run, runAtoms, runFor, hts, Sample.fields,
      idPart, fieldsPart, TAB, HASH]

theorem timestamp_consts :
    Gen.Phout.tsDivisor = tsDivisor ∧ Gen.Phout.tsBase = 10 ∧ Gen.Phout.tsDotFromEnd = dotFromEnd ∧
    UInt8.ofNat Gen.Phout.tsDotByte = DOT ∧ Gen.Phout.tsShiftLoop = true := by decide

theorem lineTerminator_eq : UInt8.ofNat Gen.Phout.lineTerminator = LF := by decide

end Pandora.Bridge.Phout
