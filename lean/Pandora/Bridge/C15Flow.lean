/-
C15 bridge, round 2: what /verif/gen re-extracted from the CURRENT source (`Pandora/Gen/C15Flow.lean`, area `c15flow`) IS
what the model says.

  `stepCode_eq`, `onStepErr_eq`   the instruction list of `shootStep` and the error branch of `shoot` are the ones
                                  `Proofs.C15.runShootCode_eq` interprets into the model's `shootLoop`
  `parseShoot_eq`                 `config.ParseShootName` (defaults, guards, argument positions) = `parseShootName`
  `convShoot_eq`, `expand_gen`    the loop body of `convertScenarioToAmmo` = `parseShootName` + `expandItem`
  `ringCopies_eq`                 `decodeAmmo` appends a scenario `ns` times
  `assertSizeFails_eq`, `assertReadsBody_iff`, `assertStatusFails_iff`, `assertChecks_eq`   assert/response
  `substrBounds_eq`               the index arithmetic of the `substr` modifier of var/header
  `idxNumeric_range`, `calcIndex_numeric`, `idxEmptyRefused_iff`, `idxLast_eq`              `calcIndex`
  `preLoopCode_eq`                the mapping loop of `Preprocessor.Process`: resolve, return on error, store
-/
import Pandora.Gen.C15Flow
import Pandora.Model.C15Flow
import Pandora.Proofs.C15Flow
import Pandora.Proofs.C15Post
import Pandora.Proofs.C15Prep

namespace Pandora.Bridge.C15Flow
open Pandora.Model.C15 Pandora.Proofs.C15

theorem stepCode_eq : Gen.C15Flow.stepCode = stepCode := by decide
theorem onStepErr_eq : Gen.C15Flow.onStepErr = onStepErr := by decide
theorem requestVarsPerShot_eq : Gen.C15Flow.requestVarsPerShot = true := rfl
theorem preLoopCode_eq : Gen.C15Flow.preLoopCode = ["resolve", "chk", "store"] := rfl
theorem assertChecks_eq : Gen.C15Flow.assertChecks = ["body", "headers", "status", "size"] := rfl

theorem errClass_parse1 : errClass "failed to parse count: %w" = "parse" := by decide
theorem errClass_parse2 : errClass "failed to parse shoot %s: %w" = "parse" := by decide
theorem errClass_sleep : errClass "%s must follow a request" = "sleepfirst" := by decide
theorem errClass_notfound : errClass "request %s not found" = "notfound" := by decide
theorem errClass_toomany : errClass "%s: a scenario may hold at most %d requests" = "toomany" := by decide

/-- `ParseShootName` as regenerated is the model's `parseShootName` -/
theorem parseShoot_eq (s : List Char) :
    Gen.C15Flow.parseShoot atoi s =
      match parseShootName s with
      | .error _ => .err "parse"
      | .ok it => .ok (it.name, it.cnt, it.sleep) := by
  unfold Gen.C15Flow.parseShoot parseShootName
  cases hp : parseStringFunc s with
  | error e => rfl
  | ok r =>
    obtain ⟨name, args⟩ := r
    simp only [bind, Except.bind, pure, Except.pure]
    generalize args.getD [] = a
    rcases a with _ | ⟨x, _ | ⟨y, rest⟩⟩
    · simp [argStep, condAnd]
    · by_cases hx : x = []
      · subst hx; simp [argStep, condAnd, strIdx?]
      · have hx' : x.isEmpty = false := by cases x <;> simp_all
        have hb : (x != []) = true := by simp [hx]
        cases ha : atoi x <;> simp [argStep, condAnd, strIdx?, hx', hb, ha, errClass_parse1]
    · have em : ∀ z : List Char, z ≠ [] → z.isEmpty = false ∧ (z != []) = true := by
        intro z hz; cases z <;> simp_all
      have l0 : ((0 : Int) < (rest.length : Int) + 1 + 1) := by omega
      have l1 : ((1 : Int) < (rest.length : Int) + 1 + 1) := by omega
      by_cases hx : x = [] <;> by_cases hy : y = []
      · subst hx; subst hy; simp [argStep, condAnd, strIdx?, l0, l1]
      · subst hx
        obtain ⟨h1, h2⟩ := em y hy
        cases hb : atoi y <;> simp [argStep, condAnd, strIdx?, h1, h2, hb, errClass_parse1, l0, l1]
      · subst hy
        obtain ⟨h1, h2⟩ := em x hx
        cases ha : atoi x <;> simp [argStep, condAnd, strIdx?, h1, h2, ha, errClass_parse1, l0, l1]
      · obtain ⟨h1, h2⟩ := em x hx
        obtain ⟨h3, h4⟩ := em y hy
        cases ha : atoi x <;> cases hb : atoi y <;>
          simp [argStep, condAnd, strIdx?, h1, h2, h3, h4, ha, hb, errClass_parse1, l0, l1]

theorem addSleepAt_last {ρ} (acc : List (Step ρ)) (ms : Int) (h : acc ≠ []) :
    addSleepAt acc ((acc.length : Int) - 1) ms =
      match bumpLast acc ms with
      | some a => .ok a
      | none => .panic "index" := by
  unfold addSleepAt bumpLast
  obtain ⟨pre, l, rfl⟩ : ∃ pre l, acc = pre ++ [l] := ⟨acc.dropLast, acc.getLast h, (List.dropLast_concat_getLast h).symm⟩
  have hl : (((pre ++ [l]).length : Int) - 1) = (pre.length : Int) := by simp
  rw [hl]
  simp

/-- the loop body of `convertScenarioToAmmo` as regenerated is `parseShootName` followed by the model's `expandItem` -/
theorem convShoot_eq {ρ} (reqs : List Char → Option ρ) (sh : List Char) (acc : List (Step ρ)) :
    Gen.C15Flow.convShoot atoi reqs sh acc =
      match parseShootName sh with
      | .error _ => .err "parse"
      | .ok it => expandItem reqs acc it := by
  unfold Gen.C15Flow.convShoot
  rw [parseShoot_eq]
  cases parseShootName sh with
  | error e => simp [errClass_parse2]
  | ok it =>
    simp only [show ("sleep".toList = sleepName) from rfl]
    unfold expandItem
    by_cases hs : it.name = sleepName
    · simp only [hs, if_true]
      by_cases he : acc = []
      · subst he
        simp [bumpLast, errClass_sleep]
      · have hl : ¬ ((acc.length : Int) = 0) := by
          intro c; exact he (List.length_eq_zero_iff.mp (by omega))
        simp only [hl, if_false, Int.one_mul]
        rw [addSleepAt_last acc it.cnt he]
        have hb : bumpLast acc it.cnt ≠ none := by
          unfold bumpLast
          cases hg : acc.getLast? with
          | none => exact absurd (List.getLast?_eq_none_iff.mp hg) he
          | some l => simp
        cases hbl : bumpLast acc it.cnt with
        | none => exact absurd hbl hb
        | some a => rfl
    · have hs' : (it.name == sleepName) = false := by simp [hs]
      simp only [hs, hs', if_false, Bool.false_eq_true]
      cases reqs it.name with
      | none => simp [errClass_notfound]
      | some r =>
        simp only [appendLoop, Int.one_mul, Int.sub_zero, Bool.false_eq_true, if_false, errClass_toomany]
        -- the refusal in whatever (linear) arithmetic form the source states it: both conditions are split and the two
        -- contradictory combinations are closed by `omega`
        by_cases hp : it.sleep > 0 <;> simp only [hp, if_true, if_false] <;>
          (split <;> split <;>
            first
              | rfl
              | (exfalso; unfold maxScenarioRequests at *; omega)
              | (simp))


/-- `convertScenarioToAmmo` of the model is the loop over the regenerated body -/
theorem expand_gen {ρ} (reqs : List Char → Option ρ) (sh : List Char) (rest : List (List Char)) (acc : List (Step ρ)) :
    expand reqs (sh :: rest) acc =
      match Gen.C15Flow.convShoot atoi reqs sh acc with
      | .ok acc' => expand reqs rest acc'
      | .err e => .err e
      | .panic p => .panic p := by
  rw [convShoot_eq, expand]
  cases parseShootName sh with
  | error e => rfl
  | ok it =>
    simp only []
    cases expandItem reqs acc it <;> rfl

theorem ringCopies_eq (ns : Int) : (Gen.C15Flow.ringCopies ns).toNat = ns.toNat := by
  simp [Gen.C15Flow.ringCopies]

theorem assertSizeFails_eq (op : String) (val len : Int) : Gen.C15Flow.assertSizeFails op val len = sizeFails op val len := by
  unfold Gen.C15Flow.assertSizeFails sizeFails
  split
  · by_cases h : val = len <;> simp [h]
  · split
    · simp
    · split
      · simp
      · rfl

theorem assertReadsBody_iff (a : AssertCfg) :
    Gen.C15Flow.assertReadsBody (a.body.length : Int) (a.size.isSome = true) ↔ readsBody a = true := by
  unfold Gen.C15Flow.assertReadsBody readsBody
  simp

theorem assertStatusFails_iff (want got : Int) :
    ¬ Gen.C15Flow.assertStatusFails want got ↔ (want = 0 ∨ want = got) := by
  unfold Gen.C15Flow.assertStatusFails
  omega

theorem substrBounds_eq (start stop l : Int) : Gen.C15Flow.substrBounds start stop l = substrBounds start stop l := by
  rfl


theorem idxEmptyRefused_iff (L : Nat) : Gen.C15Flow.idxEmptyRefused (L : Int) ↔ L = 0 := by
  unfold Gen.C15Flow.idxEmptyRefused
  omega

theorem idxLast_eq (L : Nat) (h : 0 < L) : Gen.C15Flow.idxLast (L : Int) = ((L - 1 : Nat) : Int) := by
  unfold Gen.C15Flow.idxLast
  omega

/-- a numeric index — any integer — selects a row of a non-empty list: never out of range -/
theorem idxNumeric_range (i : Int) (L : Nat) (h : 0 < L) :
    0 ≤ Gen.C15Flow.idxNumeric i L ∧ Gen.C15Flow.idxNumeric i L < L := by
  unfold Gen.C15Flow.idxNumeric
  have hL : (0 : Int) < L := by omega
  split
  · omega
  · simp only []
    have h1 : Int.tmod i L < L := Int.tmod_lt_of_pos i hL
    have h2 : -(L : Int) < Int.tmod i L := by
      have := Int.tmod_lt_of_pos (-i) hL
      rw [Int.neg_tmod] at this
      omega
    split <;> omega

/-- what the model's `calcIndex` does with a numeric index is the regenerated arithmetic -/
theorem calcIndex_numeric (indexStr seg : String) (L id : Nat) (it : Iter) (i : Int) (hL : 0 < L)
    (hi : atoi indexStr.toList = some i) (h1 : indexStr ≠ "last") (h2 : indexStr ≠ "rand") (h3 : indexStr ≠ "next") :
    calcIndex indexStr seg L id it = .ok ((Gen.C15Flow.idxNumeric i L).toNat, it) := by
  unfold calcIndex Gen.C15Flow.idxNumeric
  have e1 : (indexStr == "last") = false := by simpa using h1
  have e2 : (indexStr == "rand") = false := by simpa using h2
  have e3 : (indexStr == "next") = false := by simpa using h3
  have e4 : (L == 0) = false := by simpa using Nat.ne_of_gt hL
  simp only [e1, e2, e3, e4, hi, Bool.or_self, Option.isNone_some, Bool.false_and, Bool.false_eq_true, if_false]
  by_cases hr : 0 ≤ i ∧ i < (L : Int)
  · simp [hr]
  · simp only [hr, if_false]

/-- round 6: `prepareRequest` as regenerated is the statement list `Proofs.C15.runPrep_eq` interprets into the direct reading -/
theorem prepCode_eq : Gen.C15Flow.prepCode = prepCode := by decide

/-- round 6: the min_waiting_time rule at the end of `shoot` as regenerated -/
theorem mwtPause_eq (m spent : Int) : Gen.C15Flow.mwtPause m spent = mwtPause m spent := rfl

end Pandora.Bridge.C15Flow
