/-
Bridge C14, round 6: the facts about a cancellation that lands inside `Scan` (Model/C14Mid.lean) regenerated from the
current Go source:

  Gen.C14Hdr.{uri,uripost,raw,json}ScanChecksCtx   does the reading loop of the decoder's Scan look at the context
  Gen.C14Hdr.{uri,uripost,raw}ScanCtxBare          … and hand on ctx.Err() ITSELF (not an error wrapped with %w)
  Gen.ChosenCases.loadAmmoFailBare                 the error branch of Provider.loadAmmo, read for the KIND of value returned

A decoder that wraps the cancelled context's error (`xerrors.Errorf("…: %w", ctx.Err())`) turns `…ScanCtxBare` to false and
breaks `scan_ctx_source`; a loadAmmo that hands the decoder's error on wrapped instead of the context's own breaks
`loadFail_bare_source`.
-/
import Pandora.Bridge.C14
import Pandora.Model.C14Mid

namespace Pandora.Bridge.C14
open Pandora.Model.C08 hiding fullScan httpRun runFuel run
open Pandora.Model.C14

/-- the CtxRet of a format according to the regenerated facts -/
def ctxRetOf : Fmt → CtxRet
  | .uri => if Gen.C14Hdr.uriScanCtxBare then .bare else .wrapped
  | .uripost => if Gen.C14Hdr.uripostScanCtxBare then .bare else .wrapped
  | .raw => if Gen.C14Hdr.rawScanCtxBare then .bare else .wrapped
  | .jsonLines | .jsonArray => if Gen.C14Hdr.jsonScanCtxBare then .bare else .wrapped

/-- which decoders look at the context in their reading loop (`Model.C14.scanChecksCtx`), and every one that does
returns the context's own error -/
theorem scan_ctx_source :
    (Gen.C14Hdr.uriScanChecksCtx = scanChecksCtx .uri ∧ Gen.C14Hdr.uripostScanChecksCtx = scanChecksCtx .uripost ∧
      Gen.C14Hdr.rawScanChecksCtx = scanChecksCtx .raw ∧ Gen.C14Hdr.jsonScanChecksCtx = scanChecksCtx .jsonLines ∧
      Gen.C14Hdr.jsonScanChecksCtx = scanChecksCtx .jsonArray) ∧
    (∀ k, ctxRetOf k = .bare) := by
  refine ⟨by decide, ?_⟩
  intro k; cases k <;> decide

/-- `Provider.loadAmmo`: a cancel that ended the load is handed on as the context's own error, however the decoder
wrapped it (`loadCancelEnd true`); every other error of the load is wrapped (`%w`) -/
theorem loadFail_bare_source :
    (∀ eb, Gen.ChosenCases.loadAmmoFailBare true .canceled eb = some true) ∧
    (∀ c e eb, Gen.ChosenCases.loadAmmoFailBare c e eb = none ↔ Gen.ChosenCases.loadAmmoFail c e = none) := by
  refine ⟨?_, ?_⟩
  · intro eb; cases eb <;> decide
  · intro c e eb; cases c <;> cases e <;> cases eb <;> decide

/-- the provider's OWN cancellation checks (top of the loops of runFullScan / runPreloaded, Done branch of their `select`)
return the class `canceled` and return it bare: `Model.C14.ownCtxEnd` -/
theorem own_ctx_source :
    ownCtxEnd = ⟨Gen.ChosenCases.runFullScanDone, Gen.ChosenCases.runFullScanCtxBare⟩ ∧
    ownCtxEnd = ⟨Gen.ChosenCases.runPreloadedDone, Gen.ChosenCases.runPreloadedCtxBare⟩ := by decide

/-- the only readers of the config field `Preload` are Run and Release -/
theorem preload_sites_source : Gen.ChosenCases.preloadReadSites = preloadSites := by decide

/-- `Provider.Release` hands the ammo back to the decoder exactly when the provider is not preloading -/
theorem release_source (preload : Bool) : Gen.ChosenCases.releaseToPool preload = releasesToPool preload := by
  cases preload <;> rfl

end Pandora.Bridge.C14
