/-
Bridge C16: the regenerated tables and code shapes (`Pandora/Gen/HclYaml.lean`, rewritten from /repo's current source
on every check run) are what the model `Pandora.Model.C16` assumes.  If the source changes any of these, this file
stops compiling and the check reports a broken obligation.
-/
import Pandora.Gen.HclYaml
import Pandora.Model.C16
import Pandora.Model.C16Locals
import Pandora.Model.C16Src
import Pandora.Model.C16Text

namespace Pandora.Bridge.HclYaml
open Pandora.Go Pandora.Model.C16

/-- the struct/tag tables of the current source -/
def current : Tables :=
  ⟨Gen.HclYaml.hclStructs, Gen.HclYaml.cfgStructs, Gen.HclYaml.plugins, Gen.HclYaml.hclRoot, Gen.HclYaml.cfgRoot,
    Gen.HclYaml.pluginNameKey⟩

/-- fields of `AmmoConfig` that no decoder (scenario/http, scenario/grpc, `ExtractVariableStorage`) reads:
they cannot influence the ammo, so HCL need not feed them (`Locals`, the YAML-only home of anchors) -/
def unread : List String :=
  (cFields current current.cfgRoot).filterMap fun g =>
    if Gen.HclYaml.ammoFieldsRead.contains g.go then none else some g.go

/-- calls that only build error values -/
def notErr (c : String) : Bool := c != "fmt.Errorf" && c != "errors.New" && c != "errors.Wrap" && c != "errors.WithStack"

/-- the HCL path is `yaml.Marshal` followed by the common `DecodeMap`, and touches nothing else: whatever `DecodeMap`
does (it is shared) happens to both front-ends alike -/
theorem convert_shape :
    Gen.HclYaml.convertCalls.filter notErr = ["yaml.Marshal", "DecodeMap"] ∧
    Gen.HclYaml.convertWrites = [] := by decide

/-- the YAML path is `io.ReadAll` followed by `DecodeMap` -/
theorem parse_shape :
    Gen.HclYaml.parseAmmoCalls.filter notErr = ["io.ReadAll", "DecodeMap"] ∧
    Gen.HclYaml.parseAmmoWrites = [] := by decide

/-- `DecodeMap` still is `yaml.Unmarshal` into a generic map followed by `config.DecodeAndValidate` (checks added
after it are common to both paths) -/
theorem decodeMap_shape :
    "yaml.Unmarshal" ∈ Gen.HclYaml.decodeMapCalls ∧ "config.DecodeAndValidate" ∈ Gen.HclYaml.decodeMapCalls := by
  decide

/-- `.hcl` goes through `ParseHCLFile` + `ConvertHCLToAmmo`, `.yaml` through `ParseAmmoConfig` -/
theorem ext_switch :
    ("HasSuffix", ".hcl", "ParseHCLFile+ConvertHCLToAmmo") ∈ Gen.HclYaml.extCases ∧
    ("HasSuffix", ".yaml", "ParseAmmoConfig") ∈ Gen.HclYaml.extCases := by
  constructor <;> decide

/-- mapstructure is configured as the model's `decode` reads it: unknown keys are errors, no weak typing, fields that
are absent keep their zero value, keys come from the `config` tag, plugins are selected by `type` -/
theorem decoder_flags :
    Gen.HclYaml.decoderErrorUnused = true ∧ Gen.HclYaml.decoderWeaklyTyped = false ∧
    Gen.HclYaml.decoderZeroFields = false ∧ Gen.HclYaml.decoderTagName = "config" ∧
    Gen.HclYaml.pluginNameKey = "type" := ⟨rfl, rfl, rfl, rfl, rfl⟩

theorem roots : current.hclRoot = "AmmoHCL" ∧ current.cfgRoot = "AmmoConfig" := ⟨rfl, rfl⟩

/-! ### locals and functions (`config/hcl.go`) -/

/-- the function table of the current source: HCL name ↦ go-cty stdlib function -/
def fns : List (String × String) := Gen.HclYaml.hclFunctions

def nth (xs : List String) (i : Nat) : String := xs.getD i "?"

/-- role ("acc" = locals of the previous blocks, "new" = this block's) of the map `mergeMaps` writes INTO -/
def mergeDst : String := nth Gen.HclYaml.localsMergeArgs Gen.HclYaml.mergeMapsShape.1
/-- role of the map whose entries are written -/
def mergeSrc : String := nth Gen.HclYaml.localsMergeArgs Gen.HclYaml.mergeMapsShape.2.1
/-- `mergeMaps` returns the map it wrote into -/
def mergeReturnsDst : Bool := Gen.HclYaml.mergeMapsShape.2.2 == Gen.HclYaml.mergeMapsShape.1

/-- a later definition of a local replaces an earlier one: this block's entries are written over the accumulated ones -/
def laterWins : Bool := mergeDst == "acc" && mergeSrc == "new"

/-- after the iteration the accumulator holds the merged map (it was written into, or it is reassigned from the result) -/
def accHoldsMerged : Bool := mergeDst == "acc" || (Gen.HclYaml.localsAccReassigned && mergeReturnsDst)

/-- the context of the next iteration (and of the body) is built from the merged map -/
def ctxIsMerged : Bool :=
  (Gen.HclYaml.localsCtxFrom == "merge-result" && mergeReturnsDst) || (Gen.HclYaml.localsCtxFrom == "acc" && accHoldsMerged)

/-- `decodeLocals` / `decodeLocalBlock` / `ParseHCLFile` have the data flow of the model's `evalLocals` / `evalFile`:
every `locals` block is evaluated under the context of the PREVIOUS blocks, its entries are written over the
accumulated ones (later wins), the accumulated map survives, the next context and finally the body's context are built
from it; the locals are visible as `local.<name>`; only `locals` blocks are taken out of the body. -/
theorem locals_flow :
    laterWins = true ∧ accHoldsMerged = true ∧ ctxIsMerged = true ∧
    Gen.HclYaml.localsBlockCtx = "ctx" ∧ Gen.HclYaml.localBlockEvalUnder = "param" ∧
    Gen.HclYaml.parseHclBodyCtx = "locals-ctx" ∧ Gen.HclYaml.localsRoot = "local" ∧
    Gen.HclYaml.localsBlockTypes = ["locals"] ∧ Gen.HclYaml.localsBlockFilter = ["locals"] := by decide

/-- the functions on the way from the file to `AmmoConfig` -/
def conversionFns : List String :=
  ["ParseHCLFile", "decodeLocals", "decodeLocalBlock", "ConvertHCLToAmmo", "DecodeMap", "ParseAmmoConfig"]

/-- are the diagnostics of `f.Body.PartialContent(localsSchema())` tested and returned by `ParseHCLFile`?  (They carry
the errors about the `locals` blocks themselves — a block with a label is taken out of the body and handed to nobody.)
Was `false` for the source as it was found (finding `dropped-locals`, repaired by fixes/C16-labelled-locals.diff) -/
def schemaDiagsChecked : Bool :=
  Gen.HclYaml.errFlow.contains ("ParseHCLFile", "(hcl.Body).PartialContent", "returned")

/-- one row of the regenerated error flow is fine: the error / diagnostics value is tested by the next statement (alone
or as one disjunct of an `||` chain) and returned — no exception -/
def errRowOK (r : String × String × String) : Bool := r.2.2 == "returned"

/-- `ParseHCLFile` returns the diagnostics of `PartialContent`: a `locals` block that hcl drops with an error refuses
the file (model: `splitLocals true`) -/
theorem schema_diags_checked : schemaDiagsChecked = true := by decide

/-- no failure on the way is swallowed: a `locals` block that does not evaluate (`decodeLocalBlock` ← `Expr.Value`,
`JustAttributes`), a body that does not decode (`gohcl.DecodeBody`), a marshal / unmarshal / decode step that fails —
each is tested at once and returned, so the file is refused as a whole (model: `evalFile … = none` ⇒ refused) -/
theorem errors_propagated :
    Gen.HclYaml.errFlow.all errRowOK = true ∧
    ("decodeLocals", "decodeLocalBlock", "returned") ∈ Gen.HclYaml.errFlow ∧
    ("decodeLocalBlock", "(hcl.Expression).Value", "returned") ∈ Gen.HclYaml.errFlow ∧
    ("decodeLocalBlock", "(hcl.Body).JustAttributes", "returned") ∈ Gen.HclYaml.errFlow ∧
    ("ParseHCLFile", "decodeLocals", "returned") ∈ Gen.HclYaml.errFlow ∧
    ("ParseHCLFile", "gohcl.DecodeBody", "returned") ∈ Gen.HclYaml.errFlow ∧
    ("ConvertHCLToAmmo", "yaml.Marshal", "returned") ∈ Gen.HclYaml.errFlow ∧
    ("ConvertHCLToAmmo", "DecodeMap", "returned") ∈ Gen.HclYaml.errFlow := by decide

/-- the loops of the locals evaluation leave nothing out: `decodeLocals` skips a block only when it is nil,
`decodeLocalBlock` has no `continue` / `break` and stores every attribute's value under the attribute's name -/
theorem locals_loops_total :
    (Gen.HclYaml.localsLoopBranches.all fun b => b == "continue:blk==nil") = true ∧
    Gen.HclYaml.localBlockBranches = [] ∧ Gen.HclYaml.localBlockStoresAll = true := by decide

/-- no reader of the decoded `AmmoConfig` (scenario/http, scenario/grpc, config/decode.go, config/config.go) compares a
slice or a map with nil or uses `reflect.DeepEqual`: they range over them, take `len`, index them — a nil and an empty
collection are the same to them, as the model assumes when it identifies the two -/
theorem readers_nil_blind : Gen.HclYaml.readerNilTests = [] := by decide

/-- `ParseHCLFile` still splits the body (`PartialContent`), evaluates the locals and decodes the rest with gohcl -/
theorem parseHcl_shape :
    "f.Body.PartialContent" ∈ Gen.HclYaml.parseHclCalls ∧ "decodeLocals" ∈ Gen.HclYaml.parseHclCalls ∧
    "gohcl.DecodeBody" ∈ Gen.HclYaml.parseHclCalls := by decide

/-! ### round 3: the file name, package-level state, the providers -/

/-- the calls the name tested by the extension switch may go through on its way from the `fileName` parameter -/
def subjectStepOK (c : String) : Bool :=
  c == "strings.ToLower" || c == "(fs.FileInfo).Name" || c == "(afero.File).Stat" || c == "(afero.Fs).Open" ||
  c == "filepath.Base" || c == "path.Base" || c == "param:fileName"

/-- is the name lower-cased before the tests? -/
def nameLowered : Bool := Gen.HclYaml.extSubject.contains "strings.ToLower"

/-- what is done to every character of the name before the tests (ASCII reading of `unicode.ToLower`) -/
def subjectLc : Char → Char := if nameLowered then asciiLower else id

/-- every case of the switch tests one and the same value (gen refuses anything else), and that value is the file name
handed to `ReadAmmoConfig` — at most lower-cased and reduced to its base name, nothing else -/
theorem ext_subject :
    Gen.HclYaml.extSubject.all subjectStepOK = true ∧ Gen.HclYaml.extSubject.getLast? = some "param:fileName" := by
  decide

/-- both extensions reach their front-end whatever stands in front of them -/
theorem ext_selects :
    extSelects Gen.HclYaml.extCases ".hcl" "ParseHCLFile+ConvertHCLToAmmo" = true ∧
    extSelects Gen.HclYaml.extCases ".yaml" "ParseAmmoConfig" = true := by decide

/-- the front-ends keep nothing from one file to the next: the functions of scenario/config reachable from
`ReadAmmoConfig` only READ package-level variables (no cache, no pool, no hoisted parser or evaluation context: a
`write`, a method call on such a variable, its address or handing a reference to it on would be state) -/
theorem stateless : (Gen.HclYaml.pkgStateUses.all fun u => u.2.2 == "read") = true := by decide

def flowOf (tag : String) : List (String × Nat × String) :=
  (Gen.HclYaml.providerFlow.filter fun r => r.1 == tag).map fun r =>
    (if (tag ++ ".decodeAmmo") == r.2.1 then "decodeAmmo" else r.2.1, r.2.2.1, r.2.2.2)

def flowExpected : List (String × Nat × String) :=
  [("ReadAmmoConfig", 1, "file"), ("ExtractVariableStorage", 0, "cfg"), ("decodeAmmo", 0, "cfg")]

def sameSet (a b : List (String × Nat × String)) : Bool := a.all b.contains && b.all a.contains

/-- both providers hand the file name to `ReadAmmoConfig` and to nothing else, and build the variable storage and the
ammo from its result and nothing else: the syntax of the file can reach the ammo only through the `AmmoConfig` -/
theorem provider_flow : sameSet (flowOf "http") flowExpected = true ∧ sameSet (flowOf "grpc") flowExpected = true := by
  decide

/-! ### round 6: the text between `io.ReadAll` and the parser; the I/O shape of `ReadAmmoConfig` -/

/-- what `ParseHCLFile` does to the text of the file before `ParseHCL` (regenerated chain, translated; `none` = a call the
model does not know) -/
def hclSteps : Option (List TextStep) := stepsOf Gen.HclYaml.hclTextSteps

/-- what `ParseAmmoConfig` does to the text before `DecodeMap` -/
def yamlSteps : Option (List TextStep) := stepsOf Gen.HclYaml.yamlTextSteps

/-- the HCL front-end replaces CR LF by LF and does nothing else to the text; the YAML front-end hands the text to
`DecodeMap` (yaml.v2) as it was read -/
theorem text_steps : hclSteps = some [.replaceAll "\r\n" "\n"] ∧ yamlSteps = some [] := by decide

/-- `ReadAmmoConfig` treats the errors of Open / Stat / Close as the model `readAmmoConfig` does: each refuses the file
(the Close error through the named result, written by the deferred closure on every path) -/
def readFlowStrict : Bool :=
  Gen.HclYaml.readAmmoFlow == [("(afero.Fs).Open", "refuses"), ("(afero.File).Stat", "refuses"), ("Close", "deferred-refuses")] &&
  Gen.HclYaml.readAmmoNamedErr

theorem read_flow : readFlowStrict = true := by decide

end Pandora.Bridge.HclYaml
