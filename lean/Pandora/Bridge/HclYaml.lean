/-
Bridge C16: the regenerated tables and code shapes (`Pandora/Gen/HclYaml.lean`, rewritten from /repo's current source
on every check run) are what the model `Pandora.Model.C16` assumes.  If the source changes any of these, this file
stops compiling and the check reports a broken obligation.
-/
import Pandora.Gen.HclYaml
import Pandora.Model.C16

namespace Pandora.Bridge.HclYaml
open Pandora.Go Pandora.Model.C16

/-- the struct/tag tables of the current source -/
def current : Tables :=
  ⟨Gen.HclYaml.hclStructs, Gen.HclYaml.cfgStructs, Gen.HclYaml.plugins, Gen.HclYaml.hclRoot, Gen.HclYaml.cfgRoot,
    Gen.HclYaml.pluginNameKey⟩

/-- fields of `AmmoConfig` that no decoder (scenario/http, scenario/grpc, `ExtractVariableStorage`) reads:
they cannot influence the ammo, so HCL need not feed them (`Locals`, the YAML-only home of anchors) -/
def unread : List String :=
  (cFields current current.cfgRoot).filterMap fun g =>
    if Gen.HclYaml.ammoFieldsRead.contains g.go then none else some g.go

/-- calls that only build error values -/
def notErr (c : String) : Bool := c != "fmt.Errorf" && c != "errors.New" && c != "errors.Wrap" && c != "errors.WithStack"

/-- the HCL path is `yaml.Marshal` followed by the common `DecodeMap`, and touches nothing else: whatever `DecodeMap`
does (it is shared) happens to both front-ends alike -/
theorem convert_shape :
    Gen.HclYaml.convertCalls.filter notErr = ["yaml.Marshal", "DecodeMap"] ∧
    Gen.HclYaml.convertWrites = [] := by decide

/-- the YAML path is `io.ReadAll` followed by `DecodeMap` -/
theorem parse_shape :
    Gen.HclYaml.parseAmmoCalls.filter notErr = ["io.ReadAll", "DecodeMap"] ∧
    Gen.HclYaml.parseAmmoWrites = [] := by decide

/-- `DecodeMap` still is `yaml.Unmarshal` into a generic map followed by `config.DecodeAndValidate` (checks added
after it are common to both paths) -/
theorem decodeMap_shape :
    "yaml.Unmarshal" ∈ Gen.HclYaml.decodeMapCalls ∧ "config.DecodeAndValidate" ∈ Gen.HclYaml.decodeMapCalls := by
  decide

/-- `.hcl` goes through `ParseHCLFile` + `ConvertHCLToAmmo`, `.yaml` through `ParseAmmoConfig` -/
theorem ext_switch :
    ("HasSuffix", ".hcl", "ParseHCLFile+ConvertHCLToAmmo") ∈ Gen.HclYaml.extCases ∧
    ("HasSuffix", ".yaml", "ParseAmmoConfig") ∈ Gen.HclYaml.extCases := by
  constructor <;> decide

/-- mapstructure is configured as the model's `decode` reads it: unknown keys are errors, no weak typing, fields that
are absent keep their zero value, keys come from the `config` tag, plugins are selected by `type` -/
theorem decoder_flags :
    Gen.HclYaml.decoderErrorUnused = true ∧ Gen.HclYaml.decoderWeaklyTyped = false ∧
    Gen.HclYaml.decoderZeroFields = false ∧ Gen.HclYaml.decoderTagName = "config" ∧
    Gen.HclYaml.pluginNameKey = "type" := ⟨rfl, rfl, rfl, rfl, rfl⟩

theorem roots : current.hclRoot = "AmmoHCL" ∧ current.cfgRoot = "AmmoConfig" := ⟨rfl, rfl⟩

end Pandora.Bridge.HclYaml
