/-
Bridge lemmas for C05: what the source says NOW (`Pandora.Gen.C05Engine`, regenerated on every check run from
lib/errutil/errutil.go, core/engine/{engine,instance}.go, cli/cli.go) is the code the model `Pandora.Model.C05`
describes.

* `isCtxError_spec`, `isCtxError_abs`: the regenerated `errutil.IsCtxError` is "nil, or caused by THIS context's
  error", and under the abstraction `absRet` it is exactly the model's `Ret.isCtxError`.
* `srcCfg`: the three variation points of the model (`Cfg`) computed from the regenerated paths;
  `srcCfg_repaired : srcCfg = Cfg.repaired`. Reverting one of the repairs makes this fail.
* the cases of the await loop, `checkAllInstancesAreFinished`, `instancePool.Run`, `awaitRunAsync`, `warmUpGun`,
  `newInstance`, `runNewInstance`, `startInstances`, `closeGun`, the deferred `recover`, `runAsync`, `Engine.Run`,
  `Engine.Wait`, `newPool` and the CLI's reaction to the result of `Engine.Run`: each summary is computed in Lean
  from the regenerated paths, and `step` of the model is shown to be the reading of these summaries
  (`awaitProv_src` … `awaitRun_src`, `checkAll_src`).
-/
import Pandora.Gen.C05Engine
import Pandora.Model.C05Src
import Pandora.Model.C05Cli

namespace Pandora.Bridge.C05Engine
open Pandora.Model.C05 Pandora.Gen.C05Engine

/-! ### `errutil.IsCtxError` -/

/-- the regenerated function computes the intended predicate: nil, or the cause is `ctx.Err()` itself -/
theorem isCtxError_spec (c : Option CtxKind) (e : Option GoErr) : isCtxError c e = isCtxErrorSpec c e := by
  cases e with
  | none => rfl
  | some g =>
    cases g with
    | other n => cases c <;> simp [isCtxError, isCtxErrorSpec, causeOf]
    | ctxKind k => cases c with
      | none => simp [isCtxError, isCtxErrorSpec, causeOf]
      | some k' => cases k <;> cases k' <;> decide

/-- … and that is the model's `Ret.isCtxError` under the abstraction of Go errors to `Ret` (relative to the context
the error is compared with): an error caused by a context-kind error that is NOT this context's `Err()` is a
component error for the model, and the real function agrees -/
theorem isCtxError_abs (c : Option CtxKind) (e : Option GoErr) :
    isCtxError c e = (absRet c e).isCtxError c.isSome := by
  rw [isCtxError_spec]
  cases e with
  | none => rfl
  | some g =>
    cases g with
    | other n => rfl
    | ctxKind k => cases c with
      | none => cases k <;> rfl
      | some k' => cases k <;> cases k' <;> decide

/-- a component's own deadline is never taken for the cancellation of the engine's (cancel-only) contexts -/
theorem foreign_deadline_is_component_error :
    isCtxError (some .canceled) (some (.ctxKind .deadlineExceeded)) = false ∧
    isCtxError none (some (.ctxKind .canceled)) = false ∧
    isCtxError none (some (.ctxKind .deadlineExceeded)) = false := by decide

/-! ### the code variant -/

def firstComm : Path → Option String
  | [] => none
  | .comm t :: _ => some t
  | _ :: r => firstComm r

/-- the cases of the select in `onErrAwaited` -/
def onErrComms : List String := (onErrAwaited.filterMap firstComm).eraseDups

/-- (`‹arg0›`: the error handed to `onErrAwaited`; local variables are spelled by what defines them, see gen/area_c05engine.go) -/
theorem onErrComms_eq : onErrComms = ["awaitErr <- ‹arg0›", "<-poolCtx.Done()"] := by decide

/-- every way through `onErrAwaited` goes through the select (no path drops the error without waiting) -/
theorem onErr_always_selects : onErrAwaited.all (fun p => (firstComm p).isSome) = true := by decide

/-- calls of `onWaitDone` that one execution of `Pool.Run` along path `p` leads to: its own calls, plus the one of the
await goroutine when `awaitRunAsync` was started -/
def waitDoneCalls (p : Path) : Nat :=
  p.count (.call "onWaitDone") + (if p.has (.call "awaitRunAsync") then awaitRunAsync.length else 0)

/-- the model's variation points, read off the regenerated paths -/
def srcCfg : Cfg where
  fixSelect := onErrComms.contains "<-poolCtx.Done()" && !onErrComms.contains "<-runCtx.Done()"
  fixWaitDone := poolRun.all fun p => p.failed != some "runAsync" || p.count (.call "onWaitDone") == 1
  fixClose :=
    (warmUpGun.all fun p => !p.has (.ok "NewGun") || p.releasedAfter "NewGun" "closeGun") &&
    (newInstance.all fun p => !(p.failed == some "Bind") || p.releasedAfter "newGun" "closeGun")

/-- the source is the repaired variant of the model -/
theorem srcCfg_repaired : srcCfg = Cfg.repaired := by decide

/-! ### `instancePool.Run` / `awaitRunAsync`: who calls `onWaitDone` -/

/-- exactly one `onWaitDone` per `Pool.Run`, on every path: the warm-up failure path and the `runAsync` failure path
call it themselves, every other path has started the await goroutine, whose deferred function calls it -/
theorem poolRun_one_waitDone : poolRun.all (fun p => waitDoneCalls p == 1) = true := by decide

theorem poolRun_outcomes :
    poolRun.map (fun p => (p.failed, p.count (.call "onWaitDone"), p.has (.call "awaitRunAsync"), p.retText)) =
      [(some "warmUpGun", 1, false, "‹warmUpGun(arg0)›"), (some "runAsync", 1, false, "‹runAsync(arg0)#1›"),
       (none, 0, true, "Err(…)"), (none, 0, true, "‹rx:awaitRunAsync#0›"), (none, 0, true, "nil")] := by decide

/-- the final select of `Pool.Run`: the pool context, or the channel `awaitRunAsync` returned; a received value is the
result, a closed channel is success -/
theorem poolRun_select :
    (poolRun.filter (fun p => p.has (.call "awaitRunAsync"))).map (fun p => (firstComm p, p.filter (fun e => match e with | .cond _ => true | .ncond _ => true | _ => false))) =
      [(some "<-‹arg0›.Done()", []),
       (some "‹rx:awaitRunAsync#0›, ‹rx:awaitRunAsync#1› := <-‹awaitRunAsync(runAsync#0)›", [.cond "‹rx:awaitRunAsync#1›"]),
       (some "‹rx:awaitRunAsync#0›, ‹rx:awaitRunAsync#1› := <-‹awaitRunAsync(runAsync#0)›", [.ncond "‹rx:awaitRunAsync#1›"])] := by decide

/-- the deferred `cancel()` of the pool context is registered before anything else on every path -/
theorem poolRun_cancels : poolRun.all (fun p => p.head? == some (.dfr "‹WithCancel(arg0)#1›")) = true := by decide

/-- the await goroutine: runs `awaitRun`, and its deferred function closes `awaitErr` and calls `onWaitDone`, once -/
theorem awaitRunAsync_goroutine :
    awaitRunAsync.map (fun p => (p.count (.go "awaitRun"), p.count (.go "defer:close:awaitErr"), p.count (.go "defer:onWaitDone"))) =
      [(1, 1, 1)] := by decide

/-! ### guns -/

theorem warmUpGun_outcomes :
    warmUpGun.map (fun p => p.resource "NewGun" "closeGun") =
      [(some "NewGun", false, false), (some "WarmUp", true, true), (none, true, true), (none, true, true)] := by decide

/-- `newInstance`: the schedule is asked for first, then the gun is created, then bound; a failure of the first two
leaves no gun behind, a failed `Bind` closes the gun, success hands the (open) gun to the instance: the four
constructors of the model's `NewOut` -/
theorem newInstance_outcomes :
    newInstance.map (fun p => p.resource "newGun" "closeGun") =
      [(some "newSchedule", false, false), (some "newGun", false, false), (some "Bind", true, true), (none, true, false)] := by
  decide

/-- no path of `newInstance` that fails leaves a created gun unclosed -/
theorem newInstance_no_leak :
    newInstance.all (fun p => !(p.failed.isSome && p.has (.ok "newGun")) || p.releasedAfter "newGun" "closeGun") = true := by
  decide

/-- an instance that was created is closed when its `Run` returns (first instance and later ones) -/
theorem runNewInstance_outcomes :
    runNewInstance.map (fun p => (p.failed,
      -- `defer instance.Close()` before `Run`, or (Run recovers every panic itself) a plain `Close()` after it
      (p.has (.dfr "Close") && (p.after (.dfr "Close")).contains (.call "Run")) ||
      (p.after (.call "Run")).contains (.call "Close"))) =
      [(some "newInstance", false), (none, true)] := by decide

def goEvents (p : Path) : List String := p.filterMap fun e => match e with | .go t => some t | _ => none
def callEvents (p : Path) : List String := p.filterMap fun e => match e with | .call t => some t | _ => none

def startEvents (p : Path) : List Ev := p.filter fun e => match e with | .go _ => true | .fail _ => true | _ => false

theorem startInstances_outcomes :
    startInstances.map startEvents =
      [[], [.fail "newInstance"], [.go "Close", .go "Run", .go "send:‹arg3›"],
       [.go "Close", .go "Run", .go "send:‹arg3›", .go "runNewInstance", .go "send:‹arg3›"]] := by decide

/-- the start goroutine waits for its startup schedule on the instance-start context (`‹arg0›`, its first parameter)
— both waits — and reports the error of that context: cancelling the instance start (out of ammo, end of the shared
schedule) ends it, and its result is judged against the context it really ended by -/
theorem startInstances_start_ctx :
    startInstances.all (fun p => (callEvents p).all fun c => c == "Wait(‹arg0›)" || c == "Err(‹arg0›)" || c == "newInstance") = true ∧
    startInstances.map (fun p => p.count (.call "Wait(‹arg0›)")) = [1, 1, 2, 2] := by decide

theorem instanceClose_closes_gun : instanceClose.all (fun p => p.has (.call "closeGun")) = true := by decide

/-- `closeGun`: `Close` is called iff the gun is an `io.Closer` -/
theorem closeGun_outcomes : closeGun.map (fun p => (p.has (.cond "‹assert:io.Closer#1›"), p.has (.call "Close"))) =
    [(false, false), (true, true)] := by decide

/-- `instance.Run` recovers a panic of `Shoot` into its (named) result -/
theorem instanceRun_recovers :
    instanceRunDefers.all (fun p => p.has (.dfr "recover") && p.has (.dfr "if:‹recover› != nil") && p.has (.dfr "set:<result>=Errorf")) = true := by
  decide

/-! ### `instance.Run`: the shooting loop (`Model.C05.instRun`) -/

/-- one regenerated iteration (the function literal called in the loop body) read as what the model's `instRun`
meets: out of ammo (the private sentinel is returned; nothing was acquired), the schedule wait said no (the acquired
ammo is released by the deferred `Release`, nil), a shot or a discarded shot (released, nil) -/
def iterKind (p : Path) : Option Iter :=
  let calls := callEvents p
  if p.retText == "outOfAmmoErr" then
    (if calls == ["Acquire"] && p.has (.ncond "‹Acquire#1›") && !p.has (.dfr "Release") then some .outOfAmmo else none)
  else if p.retText != "nil" || !p.has (.cond "‹Acquire#1›") || !p.has (.dfr "Release") then none
  else if p.has (.ncond "Wait(‹arg0›)") then (if calls == ["Acquire", "Wait(‹arg0›)"] then some .waitFalse else none)
  else if p.has (.cond "Wait(‹arg0›)") && (calls.contains "Shoot" != calls.contains "Report") then some .shot
  else none

theorem instanceRun_iterations :
    instanceRunIter.map iterKind = [some .outOfAmmo, some .waitFalse, some .shot, some .shot] := by decide

/-- the loop around it: an iteration's error ends `Run` with that error (`instRun … (.outOfAmmo :: _) = .ooa`; a panic
goes through the deferred `recover`: `instanceRun_recovers`); a nil iteration is followed by the loop condition
`IsFinished(ctx)` again; when that says yes `Run` returns `ctx.Err()` (`instRun d [] = if d then .ctx else .ok`) -/
theorem instanceRun_loop :
    instanceRunLoop.map (fun p => (p.has .loop, p.failed, (callEvents p).filter (· != "‹iteration›"), p.retText)) =
      [(true, some "‹iteration›", ["IsFinished(‹arg0›)"], "‹<literal>›"),
       (false, none, ["IsFinished(‹arg0›)", "Err(‹arg0›)"], "Err(…)"),
       (true, none, ["IsFinished(‹arg0›)", "Err(‹arg0›)"], "Err(…)")] := by decide

/-- the model's `instRun` is that loop: what each kind of iteration contributes -/
theorem instRun_is_loop (d : Bool) (rest : List Iter) (e : ErrId) :
    instRun d [] = (if d then .ctx else .ok) ∧ instRun d (.outOfAmmo :: rest) = .ooa ∧
    instRun d (.shot :: rest) = instRun d rest ∧ instRun d (.waitFalse :: rest) = instRun d [] ∧
    instRun d (.shotPanic e :: rest) = .err e := by
  refine ⟨rfl, rfl, rfl, rfl, rfl⟩

/-! ### the await loop -/

/-- what the model needs to know about one case of the select in `awaitRun` -/
structure AwaitCase where
  dec : Nat                 -- `toWait--` on every path (0 if not on every path exactly that often)
  ctx : List String         -- the context(s) `IsCtxError` is asked about
  msg : List String         -- the `WithMessage` texts
  forwards : Bool           -- `onErrAwaited` is called exactly on the paths where `IsCtxError` said no (and not for out-of-ammo)
  chk : Bool                -- `checkAllInstancesAreFinished` is the last call of every path
  deriving DecidableEq, Repr

def ctxArgs (p : Path) : List String :=
  p.filterMap fun e => match e with
    | .call "IsCtxError(runCtx)" => some "runCtx"
    | .call "IsCtxError(instanceStartCtx)" => some "instanceStartCtx"
    | .call "IsCtxError(poolCtx)" => some "poolCtx"
    | .call t => if t == "IsCtxError(?)" then some "?" else none
    | _ => none

def isCtxCond : Ev → Option Bool
  | .cond "IsCtxError(runCtx)" | .cond "IsCtxError(instanceStartCtx)" | .cond "IsCtxError(poolCtx)" => some true
  | .ncond "IsCtxError(runCtx)" | .ncond "IsCtxError(instanceStartCtx)" | .ncond "IsCtxError(poolCtx)" => some false
  | _ => none

def msgs (p : Path) : List String :=
  p.filterMap fun e => match e with
    | .call "WithMessage(provider failed)" => some "provider failed"
    | .call "WithMessage(aggregator failed)" => some "aggregator failed"
    | .call "WithMessage(instances start failed)" => some "instances start failed"
    | .call "WithMessage(instance %q run failed)" => some "instance %q run failed"
    | _ => none

def lastCall : Path → Option String
  | [] => none
  | .call f :: r => (lastCall r).or (some f)
  | _ :: r => lastCall r

def awaitCase (ps : List Path) : AwaitCase where
  dec := if ps.all (fun p => p.count (.dec "toWait") == 1) then 1 else if ps.all (fun p => p.count (.dec "toWait") == 0) then 0 else 99
  ctx := (ps.flatMap ctxArgs).eraseDups
  msg := (ps.flatMap msgs).eraseDups
  forwards := ps.all fun p => (p.count (.call "onErrAwaited") == 1) == ((p.filterMap isCtxCond) == [false])
  chk := ps.all fun p => lastCall p == some "checkAllInstancesAreFinished"

theorem awaitChannels_eq : awaitChannels = ["providerErr", "aggregatorErr", "startRes", "runRes"] := by decide
theorem awaitLoop_eq : awaitLoopCond = "toWait > 0" ∧ resultsToWait = 4 ∧ isStartFinished = "startRes == nil" := by decide

theorem await_providerErr_case : awaitCase await_providerErr = ⟨1, ["runCtx"], ["provider failed"], true, false⟩ := by decide
theorem await_aggregatorErr_case : awaitCase await_aggregatorErr = ⟨1, ["runCtx"], ["aggregator failed"], true, false⟩ := by decide
theorem await_startRes_case : awaitCase await_startRes = ⟨1, ["instanceStartCtx"], ["instances start failed"], true, true⟩ := by decide
theorem await_runRes_case : awaitCase await_runRes = ⟨0, ["runCtx"], ["instance %q run failed"], true, true⟩ := by decide

/-- each of the three one-shot channels is set to nil in its case (it cannot fire twice); the start result is stored -/
theorem await_one_shot :
    await_providerErr.all (fun p => p.has (.set "providerErr=nil")) = true ∧
    await_aggregatorErr.all (fun p => p.has (.set "aggregatorErr=nil")) = true ∧
    await_startRes.all (fun p => p.has (.set "startRes=nil") && p.has (.set "startedInstances=‹rx:startRes›.Started")) = true ∧
    await_runRes.all (fun p => p.count (.inc "awaitedInstances") == 1) = true := by decide

/-- the out-of-ammo result of an instance is no error: it cancels the instance start unless that has finished -/
theorem await_runRes_ooa :
    (await_runRes.filter (fun p => p.has (.cond "‹rx:runRes›.Err == outOfAmmoErr"))).map
        (fun p => (p.has (.cond "isStartFinished"), p.has (.call "instanceStartCancel"), p.has (.call "onErrAwaited"))) =
      [(false, true, false), (true, false, false)] := by decide

/-! the model's `step` is the reading of these summaries -/

/-- the context a name of the source stands for -/
def ctxDone (s : State) : String → Bool
  | "poolCtx" => s.poolC
  | "runCtx" => s.runC
  | "instanceStartCtx" => s.startC
  | _ => false

def wrapOf (id : Nat) : String → Wrap
  | "provider failed" => .provider
  | "aggregator failed" => .aggregator
  | "instances start failed" => .start
  | "instance %q run failed" => .instance id
  | _ => .raw

def theCtx (c : AwaitCase) : String := c.ctx.headD "?"
def theMsg (c : AwaitCase) : String := c.msg.headD "?"

theorem awaitProv_src (cfg : Cfg) (s : State) :
    step cfg s .awaitProv =
      match s.aw, s.prov with
      | .loop, .ready r =>
        let c := awaitCase await_providerErr
        handleRes { s with prov := .taken, toWait := s.toWait - c.dec } (wrapOf 0 (theMsg c)) r (ctxDone s (theCtx c)) c.chk
      | _, _ => s := by
  rw [await_providerErr_case]; rfl

theorem awaitAgg_src (cfg : Cfg) (s : State) :
    step cfg s .awaitAgg =
      match s.aw, s.agg with
      | .loop, .ready r =>
        let c := awaitCase await_aggregatorErr
        handleRes { s with agg := .taken, toWait := s.toWait - c.dec } (wrapOf 0 (theMsg c)) r (ctxDone s (theCtx c)) c.chk
      | _, _ => s := by
  rw [await_aggregatorErr_case]; rfl

theorem awaitStart_src (cfg : Cfg) (s : State) :
    step cfg s .awaitStart =
      match s.aw, s.startTaken, s.startRes with
      | .loop, false, some (n, r) =>
        let c := awaitCase await_startRes
        handleRes { s with startTaken := true, toWait := s.toWait - c.dec, startedInstances := n } (wrapOf 0 (theMsg c)) r
          (ctxDone s (theCtx c)) c.chk
      | _, _, _ => s := by
  rw [await_startRes_case]; rfl

theorem awaitRun_src (cfg : Cfg) (s : State) :
    step cfg s .awaitRun =
      match s.aw, s.runResOpen, s.buf with
      | .loop, true, (id, r) :: rest =>
        let c := awaitCase await_runRes
        let s1 := { s with buf := rest, awaited := s.awaited + 1, toWait := s.toWait - c.dec }
        if r = .ooa then
          afterErr (if s1.startTaken then s1 else { s1 with startC := true }) c.chk
        else handleRes s1 (wrapOf id (theMsg c)) r (ctxDone s (theCtx c)) c.chk
      | _, _, _ => s := by
  rw [await_runRes_case]; rfl

/-! ### `checkAllInstancesAreFinished` -/

/-- the regenerated guard is the model's: the start result was taken and every started instance was awaited -/
theorem checkAllGuard_eq (st : Bool) (a b : Nat) :
    checkAllGuard st (a : Int) (b : Int) = (st && decide (b ≤ a)) := by
  simp [checkAllGuard]

/-- once the guard holds: `runRes` is closed and set to nil, `toWait` is decremented once, the run context is cancelled;
a result that is still in the closed channel is a `log.Panic` -/
theorem checkAll_effects :
    checkAllEffects.map (fun p => (p.count (.call "close:runRes"), p.count (.set "runRes=nil"), p.count (.dec "toWait"),
        p.count (.call "runCancel"), p.has (.cond "‹rx:runRes#1›"), p.has (.call "Panic"))) =
      [(1, 1, 1, 1, true, true), (1, 1, 1, 1, false, false)] := by decide

theorem checkAll_src (s : State) :
    checkAll s =
      if checkAllGuard s.startTaken (s.awaited : Int) (s.startedInstances : Int) then
        if s.runResOpen = false then { s with panicked := true }
        else if s.buf ≠ [] then { s with panicked := true }
        else { s with runResOpen := false, toWait := s.toWait - 1, runC := true, startC := true }
      else s := by
  rw [checkAllGuard_eq]
  unfold checkAll
  by_cases h1 : s.startTaken = true <;> by_cases h2 : s.startedInstances ≤ s.awaited <;> simp [h1, h2]

/-! ### `runAsync`: the context tree and what is started -/


/-- the same elements, in any order -/
def sameElems (a b : List String) : Bool := a.length == b.length && a.all b.contains && b.all a.contains

/-- the run context is a child of the pool context (`‹arg0›`, the parameter) and the instance-start context a child of
the run context (in this order); the shared schedule is built before anything is started, and its failure starts
nothing -/
theorem runAsync_contexts :
    runAsync.map (fun p => (callEvents p, p.failed, goEvents p == [])) =
      [(["WithCancel(‹arg0›)", "WithCancel(‹WithCancel(arg0)#0›)", "buildNewInstanceSchedule"], some "buildNewInstanceSchedule", true),
       (["WithCancel(‹arg0›)", "WithCancel(‹WithCancel(arg0)#0›)", "buildNewInstanceSchedule"], none, false)] := by decide

/-- the value stored in a field of the handle `runAsync` returns -/
def handleField (f : String) : String := ((runAsyncHandle.find? (·.1 == f)).map (·.2)).getD "?"

/-- the handle carries the contexts under the names the await loop uses them by: `poolCtx` is the parameter, `runCtx` /
`runCancel` the first derived context and its cancel, `instanceStartCtx` / `instanceStartCancel` the context derived from
THAT and its cancel -/
theorem runAsync_handle_contexts :
    (["poolCtx", "runCtx", "runCancel", "instanceStartCtx", "instanceStartCancel"].map handleField) =
      ["‹arg0›", "‹WithCancel(arg0)#0›", "‹WithCancel(arg0)#1›", "‹WithCancel(WithCancel#0)#0›", "‹WithCancel(WithCancel#0)#1›"] := by
  decide

/-- what is started (in whatever order): provider and aggregator on the run context, the start goroutine on the
instance-start context, each sending its result on the channel the handle stores in the field the await loop reads it
from; the four channels are different ones -/
theorem runAsync_starts :
    (runAsync.filter (fun p => p.failed == none)).map (fun p => sameElems (goEvents p)
        ["Provider.Run(" ++ handleField "runCtx" ++ ")", "send:" ++ handleField "providerErr",
         "Aggregator.Run(" ++ handleField "runCtx" ++ ")", "send:" ++ handleField "aggregatorErr",
         "startInstances(" ++ handleField "instanceStartCtx" ++ ")", "send:" ++ handleField "startRes"]) = [true] ∧
    (["providerErr", "aggregatorErr", "startRes", "runRes"].map handleField).eraseDups.length = 4 ∧
    !(["providerErr", "aggregatorErr", "startRes", "runRes"].map handleField).contains "?" := by decide

/-- a result is sent right after the call that produces it -/
def sentAfter (p : Path) (call chan : String) : Bool := ((p.after (.go call)).head? == some (.go chan))

theorem runAsync_result_channels :
    (runAsync.filter (fun p => p.failed == none)).all (fun p =>
      sentAfter p ("Provider.Run(" ++ handleField "runCtx" ++ ")") ("send:" ++ handleField "providerErr") &&
      sentAfter p ("Aggregator.Run(" ++ handleField "runCtx" ++ ")") ("send:" ++ handleField "aggregatorErr") &&
      sentAfter p ("startInstances(" ++ handleField "instanceStartCtx" ++ ")") ("send:" ++ handleField "startRes")) = true := by decide

/-- with `rps-per-instance` the factory itself goes to the instances (the model's `.sched none`, failures show up in
`newInstance`); otherwise ONE schedule is built here, its failure is the failure of `runAsync` (`.sched (some e)`),
and when it runs out its callback cancels the instance start unless that is already done (`.rpsFinished`) -/
theorem buildSchedule_outcomes :
    buildNewInstanceSchedule.map (fun p => (p.has (.cond "‹recv›.RPSPerInstance"), callEvents p, p.failed)) =
      [(true, [], none), (false, ["NewRPSSchedule"], some "NewRPSSchedule"),
       (false, ["NewRPSSchedule", "NewCallbackOnFinishSchedule"], none)] ∧
    sharedScheduleFinished.map (fun p => (firstComm p, callEvents p)) =
      [(some "<-‹arg0›.Done()", []), (some "default", ["‹arg1›"])] := by decide

/-! ### `Engine.Run`, `Engine.Wait`, `newPool` -/

/-- per pool: `e.wait.Add(1)`, the pool gets `e.wait.Done` as its `onWaitDone`, `pool.Run` in a goroutine whose result
is sent on `runRes` unless the engine context is done -/
def enginePoolEvents (p : Path) : List Ev :=
  p.filter fun e => match e with | .call "Add" => true | .call "newPool(‹recv›.wait.Done)" => true | .go _ => true | _ => false

set_option maxRecDepth 4000 in
theorem engineRun_pool_start :
    (engineRun.map enginePoolEvents).eraseDups.map (fun p => p.take 3) =
      [[], [.call "Add", .call "newPool(‹recv›.wait.Done)", .go "Run"]] ∧
    -- the two cases of the goroutine's select, in whatever order they are written
    (engineRun.map enginePoolEvents).eraseDups.map (fun p => sameElems ((goEvents p).drop 1)
      ["comm:‹make(…,…)› <- poolRunResult{ID: ‹newPool(log,metrics,wait.Done,range#1)›.ID, Err: ‹Run(arg0)›}",
       "comm:<-‹arg0›.Done()"]) = [false, true] := by
  constructor <;> decide

theorem newPool_waitDone : newPoolWaitDoneParam = 2 := by decide

/-- the result loop of `Engine.Run`: what follows the last `loop` event -/
def afterLastLoop : Path → Path
  | [] => []
  | .loop :: r => if r.contains .loop then afterLastLoop r else r
  | _ :: r => afterLastLoop r

def engineResultEvents (p : Path) : List Ev :=
  (if p.contains .loop then afterLastLoop p else p).filter fun e =>
    match e with | .comm _ => true | .cond _ => true | .ncond _ => true | .ret _ => true | .call "WithMessage(‹rx:make›.Err)" => true | _ => false

/-- a pool error is returned (wrapped) unless the engine context is done, then `ctx.Err()`; `ctx.Done()` ends the
loop with `ctx.Err()`; a nil pool result continues; after the loop the result is nil: the model's `engRun` -/
theorem engineRun_results :
    ((engineRun.map engineResultEvents).filter (fun p => p.any fun e => match e with | .comm _ => true | _ => false)).eraseDups =
      [[.comm "‹rx:make› := <-‹make(…,…)›", .cond "‹rx:make›.Err != nil", .comm "<-‹arg0›.Done()", .ret "Err(…)"],
       [.comm "‹rx:make› := <-‹make(…,…)›", .cond "‹rx:make›.Err != nil", .comm "default", .call "WithMessage(‹rx:make›.Err)", .ret "WithMessage(…)"],
       [.comm "<-‹arg0›.Done()", .ret "Err(…)"],
       [.comm "‹rx:make› := <-‹make(…,…)›", .ncond "‹rx:make›.Err != nil", .ret "nil"]] := by decide

/-- the variant of the goroutine system `Sys` read off the source: a pool goroutine of `Engine.Run` hands its result
over inside a `select` that also listens on the engine context; and the result loop has an iteration that consists of
the `ctx.Done()` case alone - the receive of a pool result is one case of a `select` whose other case is the engine
context, not a plain receive (of which the extractor shows nothing) -/
def srcEngCfg : Sys.EngCfg :=
  ⟨(engineRun.filter (·.contains (.go "Run"))).all (·.contains (.go "comm:<-‹arg0›.Done()")),
   (engineRun.map engineResultEvents).any (fun p => p.head? == some (.comm "<-‹arg0›.Done()")) &&
   (engineRun.map engineResultEvents).any (fun p => p.head? == some (.comm "‹rx:make› := <-‹make(…,…)›"))⟩

theorem srcEngCfg_code : srcEngCfg = Sys.EngCfg.code := by decide

theorem engineRun_cancels : engineRun.all (fun p => p.head? == some (.dfr "‹WithCancel(arg0)#1›")) = true := by decide

theorem engineWait_waits : engineWait = [[.call "Wait", .ret ""]] := by decide

/-! ### the CLI's reaction to the result of `Engine.Run` -/

/-- `runEngine` forwards the result of `Engine.Run` -/
theorem cli_forwards : cliRunEngine.all (fun p => (p.after (.call "Run")).contains (.send "‹arg2›")) = true := by decide

/-- a nil result ends the process normally; any error cancels, waits for the engine's tasks and ends in `log.Fatal`
(exit status 1) -/
theorem cli_outcomes :
    cliEngineReturned.map (fun p => (p.head?, p.filter (fun e => match e with | .call _ => true | _ => false))) =
      [(some (.swc "‹rx:arg2@2›=nil"), []),
       (some (.swc "‹rx:arg2@2›=‹rx:arg2@2›"), [.call "‹arg1›", .call "Wait", .call "Fatal"]),
       (some (.swc "‹rx:arg2@2›=<none>"), [])] := by decide

/-! ### `awaitPandoraTermination` is the model `Cli.run`

Every regenerated path of the two cases of its outer select is read twice: as the list of events its selects (and
the blocking `Engine.Wait`) consume, and as the list of actions it performs up to the first `log.Fatal` (which does not
return; the extractor does not know that and goes on).  The model, run on the events, performs exactly these actions
(`rcv` is a log line, which the extractor drops). -/

/-- a path up to and including the first `log.Fatal` -/
def untilFatal : Path → Path
  | [] => []
  | .call "Fatal" :: _ => [.call "Fatal"]
  | e :: r => e :: untilFatal r

/-- the names: `‹arg1›` = gracefulShutdown and `‹arg2›` = errs (parameters), `‹make(…,…)›` = the signal channel,
`‹rx:…›` = a value received from that channel, `‹After(expr)›` = the timeout channel, `‹make(…)›` = waitDone -/
def evOf : Ev → List Cli.Ev
  | .swc "‹rx:make›=syscall.SIGINT" => [.sig .int]
  | .swc "‹rx:make›=syscall.SIGTERM" => [.sig .term]
  | .swc "‹rx:make›=default" => [.sig .other]
  | .swc "‹rx:arg2@2›=nil" => [.err true]
  | .swc "‹rx:arg2@2›=‹rx:arg2@2›" => [.err false]
  | .comm "<-‹After(expr)›" => [.timeout]
  | .comm "‹rx:make@2› := <-‹make(…,…)›" => [.sig .int]
  | .comm "‹rx:make@3› := <-‹make(…,…)›" => [.sig .int]
  | .comm "‹rx:arg2› := <-‹arg2›" => [.err false]
  | .comm "<-‹make(…)›" => [.waitDone]
  | .call "Wait" => [.waitDone]
  | _ => []

def actOf : Ev → List Cli.Act
  | .call "‹arg1›" => [.shutdown]
  | .go "Wait" => [.wait]
  | .call "Wait" => [.wait, .waited]
  | .comm "<-‹make(…)›" => [.waited]
  | .call "Fatal" => [.exit 1]
  | .ret _ => [.exit 0]
  | _ => []

def cliEvs (p : Path) : List Cli.Ev := (untilFatal p).flatMap evOf
def cliActs (p : Path) : List Cli.Act := (untilFatal p).flatMap actOf

/-- `Engine.Run` returned first: nil ⇒ exit 0; an error ⇒ shutdown, `Engine.Wait`, exit 1 -/
theorem cli_returned_model :
    (cliEngineReturned.filter (fun p => p.head? != some (.swc "‹rx:arg2@2›=<none>"))).all
      (fun p => Cli.run (cliEvs p) == cliActs p) = true := by decide

/-- a signal came first: every path through the nested selects -/
theorem cli_signalled_model :
    cliSignalled.all (fun p => (Cli.run (cliEvs p)).filter (· != .rcv) == cliActs p) = true := by decide

/-- all three kinds of signal and all continuations are there (5 per handled signal) -/
theorem cli_signalled_cases :
    (cliSignalled.map (·.head?)).eraseDups =
      [some (.swc "‹rx:make›=syscall.SIGINT"), some (.swc "‹rx:make›=syscall.SIGTERM"), some (.swc "‹rx:make›=default")] ∧
    (cliSignalled.filter (fun p => p.head? == some (.swc "‹rx:make›=syscall.SIGINT"))).length = 5 ∧
    (cliSignalled.filter (fun p => p.head? == some (.swc "‹rx:make›=syscall.SIGTERM"))).length = 5 := by decide

end Pandora.Bridge.C05Engine
