/-
Bridge lemmas for C03: the facts REGENERATED from the current /repo source (`Pandora.Gen.InstLoop`, rewritten by
`gen -area instloop` on every check) agree with the transition system the
property theorems are proved about (`Pandora.Model.C03`).

* `iterBody_accepted` — for each of the 8 answers of the environment (Acquire ok?, Wait ok?, fire?) and both schedule
  modes, the operations the SOURCE of one loop iteration of `instance.Run` performs, in source order with the deferred
  Release at the return, are a path of `Model.C03.step` from the `acquire` state, end back at the IsFinished check with
  the item released exactly once and exactly one of fired / discarded / unfired counted (or in `done` with nothing
  acquired when Acquire failed), and leave Request = Response = fired.  Reordering Acquire / Wait / Shoot / Release,
  dropping the `defer`, an early Release, a metric counted in the wrong branch or any statement the translator does
  not know breaks it.
* `runSkeleton_eq` — around the loop: InstanceStart is counted once before the loop, InstanceFinish once in the
  deferred function, the waiter is built on the instance's schedule, the loop condition is `!waiter.IsFinished(ctx)`
  and an error of the iteration function (out of ammo) leaves `Run`.
* `isFinished_iff` — the loop is left exactly when `Left() = 0` (model: event `chk i left`, `done` iff `left = 0`).
* `wait_draws_one_token` — `Waiter.Wait` has one `Next()` call site outside any loop and returns false right after a
  failed `Next()` (model: `tokOk` consumes one token, `tokEnd` = no token).
* `scheduleSource_eq`, `newInstance_schedule` — rps-per-instance: every instance calls the schedule factory once
  (model: `start i` gives instance `i` a full profile `own[i] := tokens`); otherwise one shared object (`shared`).
* `sched_accesses` — the leaf profile's `Next()` performs exactly ONE operation on the schedule's shared state (the
  atomic `i.Inc`) and `Left()` exactly one (the atomic `i.Load`): each call takes effect at a single atomic step, which
  is what `Model.C03Fine` assumes (`inc`, `load`) and `Proofs.C03Fine.fine_refines` turns into the atomic `tokOk` /
  `tokEnd` / `chk` of the coarse model.  A second access (an increment that is given back, a re-read) breaks it.
* `queueAcquire_eq`, `queueRelease_eq` — `AmmoQueue.Acquire` is one receive from the queue channel (an item, or
  "closed and drained"), `Release` only returns the object to the pool (model: `acq` / `empty`, `rel`).
-/
import Pandora.Gen.InstLoop
import Pandora.Model.C03Loop

namespace Pandora.Bridge.InstLoop
open Pandora.Model.C03Loop

theorem iterBody_accepted : bodyAccepted Gen.InstLoop.iterBody = true := by decide

theorem runSkeleton_eq : Gen.InstLoop.runSkeleton =
    ["defer func() { r := recover(); if r != nil { recoverErr = errors.Errorf(\"shoot panic: %s\", r) }; i.metrics.InstanceFinish.Add(1) }()",
     "i.metrics.InstanceStart.Add(1)",
     "waiter := coreutil.NewWaiter(i.schedule)",
     "for !waiter.IsFinished(ctx) { err := <iteration>(); if err != nil { return err } }",
     "return ctx.Err()"] := rfl

theorem isFinished_iff (left : Nat) : Gen.InstLoop.isFinished false (left : Int) = true ↔ left = 0 := by
  unfold Gen.InstLoop.isFinished
  simp <;> omega

theorem isFinished_cancelled (left : Int) : Gen.InstLoop.isFinished true left = true := by
  unfold Gen.InstLoop.isFinished
  simp

theorem scheduleSource_eq (b : Bool) :
    Gen.InstLoop.scheduleSource b = if b then SchedSource.factoryPerInstance else SchedSource.sharedObject := by
  cases b <;> rfl

theorem newInstance_schedule :
    Gen.InstLoop.newInstanceScheduleCalls = 1 ∧ Gen.InstLoop.newInstanceScheduleIsFactoryResult = true ∧
    Gen.InstLoop.runWaiter = "coreutil.NewWaiter(i.schedule)" := ⟨rfl, rfl, rfl⟩

theorem queueAcquire_eq : Gen.InstLoop.queueAcquire = ["$1, $2 := <-p.OutQueue", "return $1, $2"] := rfl
theorem queueRelease_eq : Gen.InstLoop.queueRelease = ["p.InputPool.Put(a)"] := rfl

/-- `Waiter.Wait` draws exactly one token per call (one `sched.Next()` call site, not in a loop) and returns false when
`Next()` has none (the full translation of `Wait` is C04's: `Pandora.Bridge.Waiter.Wait_eq`) -/
theorem wait_draws_one_token :
    Gen.InstLoop.waitNextCalls = 1 ∧ Gen.InstLoop.waitFailsWithoutToken = true := ⟨rfl, rfl⟩

/-- the leaf profile's `Next` / `Left` touch the shared counter exactly once, atomically -/
theorem sched_accesses :
    Gen.InstLoop.schedNextAccesses = ["i.Inc"] ∧ Gen.InstLoop.schedLeftAccesses = ["i.Load"] := ⟨rfl, rfl⟩

end Pandora.Bridge.InstLoop
