/-
C01 bridge for the start protocol: the access lists REGENERATED from core/schedule/do_at.go + start_sync.go
(`Pandora.Gen.SchedConc`, rewritten on every run) have the shape for which `Proofs/C01Conc.run_inv` holds.

`startProg_effect` runs the regenerated access list of `Start` alone on an untouched schedule and states the resulting
state. `nextProg_safe` is a computation (`decide`) on the regenerated list: the first access of `Next` is the Once, its body only
marks the schedule started (at most once) and stores the clock (at least once) — in either order —, the index is drawn
and `s.start` is read only after the Once.  Renamed locals, `s.i.Add(1) - 1` for `s.i.Inc() - 1`, a different arrangement
of the final `if`/`return`, the two statements of the Once's body in the other order, and a check of the started flag in
front of the Once whose body raises the flag LAST (double-checked lazy start done right) regenerate lists that pass; a flag
check in front of a Once that raises the flag first, a body that no longer stores the clock, a read of `s.start` before
the Once do not.
-/
import Pandora.Gen.SchedConc
import Pandora.Proofs.C01Conc

namespace Pandora.Bridge.C01Conc
open Pandora.Model.C01Conc Pandora.Proofs.C01Conc Pandora.Gen.SchedConc

theorem nextProg_safe : safeLazy nextProg = true := by decide

/-- `Start(t)` run alone on an untouched schedule (what `C01_started_concurrent` starts from): nobody panics, the started
flag is up, the Once is done, `s.start = t`, no index was drawn, the call has returned. A statement about what the
regenerated access list DOES, not about its spelling: `MarkStarted()` before or after the Once both pass; a Start that no
longer stores its argument, stores the clock, or leaves the Once open does not. -/
theorem startProg_effect (t : Int) :
    (soloStart t startProg).panics = [] ∧ (soloStart t startProg).started = true ∧ (soloStart t startProg).once = .done ∧
    (soloStart t startProg).start = some t ∧ (soloStart t startProg).ctr = 0 ∧ (soloStart t startProg).th 0 = [] ∧
    (soloStart t startProg).log = [] :=
  ⟨rfl, rfl, rfl, rfl, rfl, rfl, rfl⟩

/-- … and a second `Start` panics (the flag is swapped exactly once per Start) -/
theorem startProg_twice (t t' : Int) :
    (run t' { soloStart t startProg with th := fun j => if j = 0 then startProg else [] }
      (List.replicate startProg.length (0, 0))).panics = [0] :=
  rfl

theorem nextProg_body : ∃ g body, nextProg = progG g body ∧ BodyOK g body :=
  safeLazy_shape nextProg nextProg_safe

end Pandora.Bridge.C01Conc
