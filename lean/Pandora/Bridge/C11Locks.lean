/-
C11 — bridge between the regenerated body of the `substr` closure of the var/header postprocessor
(`Gen.Locks.substrBody`, re-extracted from components/providers/scenario/http/postprocessor/var_header.go on every
check) and the model's closed form `Model.C11.substrNorm`.

The proof is extensional (`omega` after splitting the conditionals): it survives reordered independent statements and
renamed locals, and breaks when the arithmetic changes. The two agree for every non-negative length — for a negative
`l` (impossible: `l = len(in)`) the Go statements `if start < 0 {start = 0}; if start > l {start = l}` and the model's
clamp differ, which `omega` finds at once when the hypothesis is dropped.
-/
import Pandora.Gen.Locks
import Pandora.Model.C11Modifiers

namespace Pandora.Bridge.C11Locks
open Pandora.Model.C11

theorem substrBody_eq (s e l : Int) (hl : 0 ≤ l) : Pandora.Gen.Locks.substrBody s e l = substrNorm s e l := by
  simp only [Pandora.Gen.Locks.substrBody, substrNorm, Prod.mk.injEq]
  constructor <;> (repeat' split) <;> omega

/-- the closure body refers to exactly two captured integers and returns the slice of its argument between the first
and the second (in order of declaration) — what `Model.C11.stepMod` does with the normalised bounds; the names of the
variables do not matter -/
theorem substr_shape :
    Pandora.Gen.Locks.substrState.length = 2 ∧
    Pandora.Gen.Locks.substrSlices = ":".intercalate Pandora.Gen.Locks.substrState := by decide

/-- the normalised bounds are a valid slice of a string of length `l`: `in[start:end]` cannot panic -/
theorem substrNorm_in_bounds (s e l : Int) (hl : 0 ≤ l) :
    0 ≤ (substrNorm s e l).1 ∧ (substrNorm s e l).1 ≤ (substrNorm s e l).2 ∧ (substrNorm s e l).2 ≤ l := by
  simp only [substrNorm]
  refine ⟨?_, ?_, ?_⟩ <;> (repeat' split) <;> omega

end Pandora.Bridge.C11Locks
