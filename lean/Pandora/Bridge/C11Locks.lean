/-
C11 — bridge between the regenerated body of the `substr` closure of the var/header postprocessor
(`Gen.Locks.substrBody`, re-extracted from components/providers/scenario/http/postprocessor/var_header.go on every
check: the bounds of the slice the closure returns, as a function of its two captured integers and the length of its
argument, statement by statement in SSA form) and the model's closed form `Model.C11.substrNorm`.

The proof is extensional (`omega` after splitting the conditionals): it survives reordered independent statements and
renamed locals, and breaks when the arithmetic changes. The two agree for every non-negative length — for a negative
`l` (impossible: `l = len(in)`) the Go statements `if start < 0 {start = 0}; if start > l {start = l}` and the model's
clamp differ, which `omega` finds at once when the hypothesis is dropped.
-/
import Pandora.Gen.Locks
import Pandora.Model.C11Modifiers
import Pandora.Model.C11Index

namespace Pandora.Bridge.C11Locks
open Pandora.Model.C11 Pandora.Go

theorem substrBody_eq (s e l : Int) (hl : 0 ≤ l) : Pandora.Gen.Locks.substrBody s e l = substrNorm s e l := by
  simp only [Pandora.Gen.Locks.substrBody, substrNorm, Prod.mk.injEq]
  constructor <;> (repeat' split) <;> omega

/-- the closure body refers to exactly two captured integers (the parameters of `substrBody`, in order of declaration;
their names do not matter); the pair `substrBody` returns is the pair of bounds of the slice expression the closure
returns — what `Model.C11.stepMod` slices with -/
theorem substr_shape : Pandora.Gen.Locks.substrState.length = 2 := by decide

/-- the normalised bounds are a valid slice of a string of length `l`: `in[start:end]` cannot panic -/
theorem substrNorm_in_bounds (s e l : Int) (hl : 0 ≤ l) :
    0 ≤ (substrNorm s e l).1 ∧ (substrNorm s e l).1 ≤ (substrNorm s e l).2 ∧ (substrNorm s e l).2 ≤ l := by
  simp only [substrNorm]
  refine ⟨?_, ?_, ?_⟩ <;> (repeat' split) <;> omega

/-! ### round 4: the index arithmetic behind the shared counters

The regenerated bodies of `lib/mp.calcIndex`, `(*NextIterator).Next` and `(*clientpool.Pool).Next` equal the closed forms
of `Model/C11Index.lean` for ALL arguments. The proofs split on the conditions and compare both sides: they survive
renamed locals, reordered independent statements and an `if … else` written as early returns; they break when a
comparison, a conversion, the representation of a counter or the order of two dependent steps changes. -/

theorem calcIndexBody_eq (s : String) (a : Int) (e : Bool) (len nv rv : Int) :
    Pandora.Gen.Locks.calcIndexBody s a e len nv rv = calcIndexM (idxKindOf s a e) len nv rv := by
  unfold Pandora.Gen.Locks.calcIndexBody idxKindOf
  by_cases h1 : s = "next"
  · subst h1
    simp [calcIndexM] <;> ((repeat' split) <;> first | rfl | (exfalso; omega) | (congr 1; omega) | simp_all)
  · by_cases h2 : s = "rand"
    · subst h2
      simp [calcIndexM] <;> ((repeat' split) <;> first | rfl | (exfalso; omega) | (congr 1; omega) | simp_all)
    · by_cases h3 : s = "last"
      · subst h3
        simp [calcIndexM] <;> ((repeat' split) <;> first | rfl | (exfalso; omega) | (congr 1; omega) | simp_all)
      · cases e <;> simp [calcIndexM, h1, h2, h3] <;>
          ((repeat' split) <;> first | rfl | (exfalso; omega) | (congr 1; omega) | simp_all)

theorem iterNextBody_eq (seen : Bool) (ctr : Int) : Pandora.Gen.Locks.iterNextBody seen ctr = iterNext seen ctr := by
  cases seen <;> simp [Pandora.Gen.Locks.iterNextBody, iterNext, ctrAsInt, goWrap, goPow] <;> ((repeat' split) <;> omega)

theorem poolNextBody_eq (n ctr : Int) : Pandora.Gen.Locks.poolNextBody n ctr = poolNext n ctr := by
  unfold Pandora.Gen.Locks.poolNextBody poolNext
  split
  · rfl
  · congr 2 <;> (simp [ctrAsInt, goWrap, goPow] <;> ((repeat' split) <;> omega))

/-- round 6 (tie inventory): the operations `EnrichRequestWithHeaders` and the `header/date` middleware perform on the request
being built, read off the regenerated write table — exactly an element assignment into `req.Header` plus an assignment of
`req.Host` (`Model.C11.copyHdr`: every entry but `Host` is entered into the request's map, `Host` goes to `req.Host`), and
exactly one `Header.Add` per middleware (`Model.C11.hdrAdd` / `applyMws`). A `Set` instead of `Add`, a write to another
field, a second write re-open this lemma. -/
theorem enrich_ops :
    ((Pandora.Gen.Locks.ammoWrites.filter fun w => w.1 == "components/providers/http/util.EnrichRequestWithHeaders").map
        fun w => (w.2.1, w.2.2.1, w.2.2.2)) = [("param", "param0.Header[]", "assign"), ("param", "param0.Host", "assign")] ∧
    ((Pandora.Gen.Locks.ammoWrites.filter fun w => w.1 == "components/providers/http/middleware/headerdate.Middleware.UpdateRequest").map
        fun w => (w.2.1, w.2.2.1, w.2.2.2)) = [("param", "param0.Header", "call:Header.Add")] := by decide

end Pandora.Bridge.C11Locks
