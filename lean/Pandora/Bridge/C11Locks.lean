/-
C11 — bridge between the regenerated body of the `substr` closure of the var/header postprocessor
(`Gen.Locks.substrBody`, re-extracted from components/providers/scenario/http/postprocessor/var_header.go on every
check: the bounds of the slice the closure returns, as a function of its two captured integers and the length of its
argument, statement by statement in SSA form) and the model's closed form `Model.C11.substrNorm`.

The proof is extensional (`omega` after splitting the conditionals): it survives reordered independent statements and
renamed locals, and breaks when the arithmetic changes. The two agree for every non-negative length — for a negative
`l` (impossible: `l = len(in)`) the Go statements `if start < 0 {start = 0}; if start > l {start = l}` and the model's
clamp differ, which `omega` finds at once when the hypothesis is dropped.
-/
import Pandora.Gen.Locks
import Pandora.Model.C11Modifiers

namespace Pandora.Bridge.C11Locks
open Pandora.Model.C11

theorem substrBody_eq (s e l : Int) (hl : 0 ≤ l) : Pandora.Gen.Locks.substrBody s e l = substrNorm s e l := by
  simp only [Pandora.Gen.Locks.substrBody, substrNorm, Prod.mk.injEq]
  constructor <;> (repeat' split) <;> omega

/-- the closure body refers to exactly two captured integers (the parameters of `substrBody`, in order of declaration;
their names do not matter); the pair `substrBody` returns is the pair of bounds of the slice expression the closure
returns — what `Model.C11.stepMod` slices with -/
theorem substr_shape : Pandora.Gen.Locks.substrState.length = 2 := by decide

/-- the normalised bounds are a valid slice of a string of length `l`: `in[start:end]` cannot panic -/
theorem substrNorm_in_bounds (s e l : Int) (hl : 0 ≤ l) :
    0 ≤ (substrNorm s e l).1 ∧ (substrNorm s e l).1 ≤ (substrNorm s e l).2 ∧ (substrNorm s e l).2 ≤ l := by
  simp only [substrNorm]
  refine ⟨?_, ?_, ?_⟩ <;> (repeat' split) <;> omega

end Pandora.Bridge.C11Locks
