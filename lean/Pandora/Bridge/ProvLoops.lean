/-
Bridge C08: the definitions regenerated from the provider sources (`Pandora.Gen.ProvLoops`, rewritten on every check
run) are the ones the models `Pandora.Model.C08` / `C08Chan` / `C08Mach` use.  A change of a loop guard, of a counter
update, of a `select` branch result, of a sentinel mapping, of a channel capacity, of a deferred close or of the
MultiPassReader's end-of-file rule in the Go source changes the regenerated text and breaks the lemma here.
-/
import Pandora.Gen.ProvLoops
import Pandora.Model.C08Mach
import Pandora.Model.C08Scan
import Pandora.Model.C08Fault
import Pandora.Model.C08Pick
import Pandora.Model.C08Size
import Pandora.Spec.C08

namespace Pandora.Bridge.ProvLoops
open Pandora.Model.C08 Pandora.Gen.ProvLoops

/-! ## channel capacities, Done-branch results, deferred closes -/

theorem chanCap_eq (k : Kind) : k.chanCap =
    match k with
    | .uri | .uripost | .raw | .jsonLines | .jsonArray => chanCapHttp
    | .grpcJson => chanCapGrpc
    | .httpScenario => chanCapHttpScenario
    | .grpcScenario => chanCapGrpcScenario
    | .genericJson => chanCapQueue defaultAmmoQueueSize := by
  cases k <;> rfl

/-- the `case <-ctx.Done()` branch of every send select returns what `doneResOf` says -/
theorem doneRes_eq (k : Kind) : doneResOf k =
    match k with
    | .uri | .uripost | .raw | .jsonLines | .jsonArray => runFullScanDone
    | .grpcJson => grpcDone
    | .httpScenario | .grpcScenario => scenarioRunDone
    | .genericJson => decodeDone := by
  cases k <;> rfl

/-- … with and without preload -/
theorem doneRes_preload : runPreloadedDone = doneResOf .uri ∧ runFullScanDone = doneResOf .uri := ⟨rfl, rfl⟩

/-- every `Run` closes its sink on return (`Sys.next` sets `closed` on `.ret` and on the Done branch) -/
theorem all_close : httpRunCloses = true ∧ scenarioRunCloses = true ∧ grpcRunCloses = true ∧ decodeRunCloses = true :=
  ⟨rfl, rfl, rfl, rfl⟩

/-! ## how `Run` ends (round 3): the deferred cleanups, path by path -/

/-- the deferred function of http `Provider.Run`, executed on its six paths (loop result nil / an error × Close
absent / fine / failing), is `Model.C08.finishHttp`: the sink is closed on EVERY path, Close is called when there is
one, its error is reported alone or merged.  Closing the file before the sink gives the same table; a path that
returns before `close(p.Sink)` does not. -/
theorem httpFinish_eq (errNil : Bool) (cl : CloseOut) : httpRunFinish errNil cl = finishHttp errNil cl := by
  cases errNil <;> cases cl <;> rfl

/-- … in particular no path of it leaves the sink open -/
theorem httpFinish_closes (errNil : Bool) (cl : CloseOut) : (httpRunFinish errNil cl).closesSink = true := by
  cases errNil <;> cases cl <;> rfl

/-- the cleanup that closes the sink is registered before anything can leave `Run` (a failing open, a failing
middleware, an empty ammo list), in all four families -/
theorem defers_first :
    httpRunDeferFirst = true ∧ scenarioRunDeferFirst = true ∧ grpcRunDeferFirst = true ∧ decodeRunDeferFirst = true :=
  ⟨rfl, rfl, rfl, rfl⟩

/-- grpc and the generic JSON provider drop the result of closing the ammo file (`Model.C08.finishPlain`: keep) -/
theorem drops_close : grpcRunDropsClose = true ∧ decodeRunDropsClose = true := ⟨rfl, rfl⟩

/-- an I/O error of the ammo file ends the loops that read it with an error handed to `Run`'s caller — the `ioerr`
transition of `Model.C08.FSys` (`result := some .errOther`): grpcjson `start` (scanner.Err(), a failing Seek),
`DecodeProvider.Run` (a Decode error that is not io.EOF); for the four `Scan` loops see `scanBad_eq` -/
theorem ioErr_eq : grpcReadErr = .errOther ∧ grpcSeekErr = .errOther ∧ decodeOnErr = .errOther := ⟨rfl, rfl, rfl⟩

/-- the decoder of the http provider is constructed with Limit = 0 (the provider counts delivered ammo) -/
theorem decoderLimit_eq (l : Nat) : decoderLimit l = 0 := rfl

/-- the sentinel mapping of `Provider.Run` (preloaded path) and of the scenario provider's deferred function -/
theorem httpRunMap_eq (r : RunRes) : httpRunMap r = mapSentinel r := by
  cases r <;> simp [httpRunMap, mapSentinel]

theorem scenarioRunMap_eq (r : RunRes) : scenarioRunMap r = mapSentinel r := by
  cases r <;> simp [scenarioRunMap, mapSentinel]

/-! ## runPreloaded / scenario Run -/

def liftReplay (n : Nat) (m : RunRes → RunRes) : Act (Nat × Nat) → Act (List Nat × Nat)
  | .ret r => .ret (m r)
  | .offer i p => .offer i (List.range n, p.1)
  | .tau p => .tau (List.range n, p.1)

theorem replayStep_http (b : Bounds) (c : Bool) (n k pn : Nat) (hn : 0 < n) :
    replayStep b c (List.range n) k = liftReplay n httpRunMap (runPreloadedStep b.passes b.limit n c k pn) := by
  have hget : (List.range n)[k % n]? = some (k % n) := by simp [Nat.mod_lt _ hn]
  unfold replayStep runPreloadedStep
  simp only [List.length_range, hget]
  cases c <;> simp only [Bool.false_eq_true, if_false, if_true]
  · repeat' split
    all_goals simp_all [liftReplay, httpRunMap_eq, mapSentinel]
    all_goals omega
  · simp [liftReplay, httpRunMap]

theorem replayStep_scenario (b : Bounds) (c : Bool) (n k pn : Nat) (hn : 0 < n) :
    replayStep b c (List.range n) k = liftReplay n scenarioRunMap (scenarioRunStep b.passes b.limit n c k pn) := by
  have hget : (List.range n)[k % n]? = some (k % n) := by simp [Nat.mod_lt _ hn]
  unfold replayStep scenarioRunStep
  simp only [List.length_range, hget]
  cases c <;> simp only [Bool.false_eq_true, if_false, if_true]
  · repeat' split
    all_goals simp_all [liftReplay, scenarioRunMap_eq, mapSentinel]
    all_goals omega
  · simp [liftReplay, scenarioRunMap]

/-- an empty ammo list ends `Run` with "no ammo" before the loop (`Model.C08.runPreloaded`, `stepOf … .unloaded`) -/
theorem replayPre_eq (n : Nat) :
    runPreloadedPre n = (if n = 0 then some RunRes.errNoAmmo else none) ∧
    scenarioRunPre n = (if n = 0 then some RunRes.errNoAmmo else none) := ⟨rfl, rfl⟩

/-! ## runFullScan -/

def liftStream {σ : Type} (d' : σ) : Act Nat → Act (σ × Nat)
  | .ret r => .ret r
  | .offer i k => .offer i (d', k)
  | .tau k => .tau (d', k)

theorem streamStep_eq {σ : Type} (scan : σ → ScanRes × σ) (passNum : σ → Nat) (limit : Nat) (c : Bool) (d : σ) (k : Nat) :
    streamStep scan passNum limit c d k =
      liftStream (scan d).2 (runFullScanStep limit c k (passNum d) (scan d).1 true) := by
  unfold streamStep runFullScanStep
  cases c
  · simp only [Bool.false_eq_true, if_false]
    by_cases hl : limit ≠ 0 ∧ limit ≤ k
    · have : limit ≠ 0 ∧ k ≥ limit := hl
      simp [hl, liftStream]
    · have hl' : ¬ (limit ≠ 0 ∧ k ≥ limit) := hl
      rw [if_neg hl, if_neg hl']
      by_cases h0 : k = 0 ∧ 0 < passNum d
      · have : (k = 0 ∧ True) ∧ passNum d > 0 := ⟨⟨h0.1, trivial⟩, h0.2⟩
        simp [h0, liftStream]
      · have h0' : ¬ ((k = 0 ∧ True) ∧ passNum d > 0) := fun h => h0 ⟨h.1.1, h.2⟩
        rw [if_neg h0, if_neg h0']
        rcases hs : scan d with ⟨sr, d'⟩
        cases sr <;> simp [liftStream]
        by_cases hk : k = 0 <;> simp [hk]
  · simp [liftStream]

/-! ## the JSON-array decoder -/

theorem scanArr_eq (l passes n : Nat) (d : ArrDec) :
    scanArr ⟨decoderLimit l, passes⟩ n d =
      ((scanAmmosStep passes n d.ammoNum d.passNum).1,
       ⟨(scanAmmosStep passes n d.ammoNum d.passNum).2.1, (scanAmmosStep passes n d.ammoNum d.passNum).2.2⟩) := by
  unfold scanArr scanAmmosStep decoderLimit
  simp only [ne_eq, not_true_eq_false, false_and, if_false]
  repeat' split
  all_goals simp_all
  all_goals omega

/-! ## grpc/json -/

theorem grpcStep_eq (b : Bounds) (n : Nat) (s : GrpcSt) :
    grpcStep b n s =
      if s.pos < n ∧ grpcInnerCond b.limit s.ammoNum then
        (match grpcInnerStep s.ammoNum true with
         | .offer _ a' => .offer s.pos { s with pos := s.pos + 1, ammoNum := a' }
         | .tau a' => .tau { s with pos := s.pos + 1, ammoNum := a' }
         | .ret r => .ret r)
      else match grpcAfterPass b.limit b.passes s.ammoNum s.passNum with
        | some r => .ret r
        | none => .tau { s with passNum := s.passNum + 1, pos := 0 } := by
  unfold grpcStep grpcInnerCond grpcInnerStep grpcAfterPass
  repeat' split
  all_goals simp_all
  all_goals omega

/-- `grpcLoop` of Model.C08 starts with passNum = 1: the outer loop begins with `passNum++` -/
theorem grpcInit_eq : GrpcSt.init.passNum = 0 + 1 ∧ GrpcSt.init.ammoNum = 0 := ⟨rfl, rfl⟩

/-! ## the generic JSON provider over MultiPassReader -/

instance (n a ps : Nat) : Decidable (mprFruitless (n = 0) True (decodeProgress a ps)) := by
  unfold mprFruitless; exact inferInstance

/-- the reader as it is now (`Model.C08Mach.decodeNextNow`): bypass for passes = 1, the fruitless-pass rule with the
progress function of `DecodeProvider.Run` (always set there: `True`; nothing read in a pass ⇔ the file has no entry),
then the rewind condition -/
theorem decodeNextNow_eq (passes n a fuel : Nat) (r : Mpr) (ps : Nat) :
    decodeNextNow passes n a (fuel + 1) r ps =
      if r.pos < n then (.entry r.pos, { r with pos := r.pos + 1 }, ps)
      else if mprBypass passes then (.eof, r, ps)
      else if mprFruitless (n = 0) True (decodeProgress a ps) then (.eof, { r with passesCount := r.passesCount + 1 }, a)
      else if mprRewind passes r.passesCount then decodeNextNow passes n a fuel { pos := 0, passesCount := r.passesCount + 1 } a
      else (.eof, { r with passesCount := r.passesCount + 1 }, a) := by
  unfold mprBypass mprRewind mprFruitless decodeProgress
  simp only [decodeNextNow, Nat.le_zero_eq, true_and]

/-- the reader of the sequential model `Model.C08.decodeNext` (no fruitless-pass rule: unreachable for n ≥ 1, where
every pass decodes an ammo) uses the same bypass and rewind conditions -/
theorem decodeNext_eq (passes n fuel : Nat) (r : Mpr) :
    decodeNext passes n (fuel + 1) r =
      if r.pos < n then (.entry r.pos, { r with pos := r.pos + 1 })
      else if mprBypass passes then (.eof, r)
      else if mprRewind passes r.passesCount then decodeNext passes n fuel { pos := 0, passesCount := r.passesCount + 1 }
      else (.eof, { r with passesCount := r.passesCount + 1 }) := by
  unfold mprBypass mprRewind
  simp only [decodeNext, Nat.le_zero_eq]

theorem genStep_eq (b : Bounds) (n a : Nat) (r : Mpr) (ps : Nat) :
    genStep b n a r ps =
      if ¬ decodeCond b.limit a then .ret .nil
      else match decodeNextNow b.passes n a 2 r ps with
        | (.eof, _, _) => (match decodeOnEOF with | .ret x => .ret x | .offer i k => .offer i (k, r, ps) | .tau k => .tau (k, r, ps))
        | (.spin, _, _) => .tau (a, r, ps)
        | (.entry i, r', ps') => (match decodeStep a with | .ret x => .ret x | .offer _ k => .offer i (k, r', ps') | .tau k => .tau (k, r', ps')) := by
  unfold genStep decodeCond decodeOnEOF decodeStep
  by_cases h : b.limit = 0 ∨ a < b.limit
  · have h' : b.limit ≤ 0 ∨ a < b.limit := h.imp (by omega) id
    simp only [h, h', not_true_eq_false, if_false]
    split <;> simp_all
  · have h' : ¬ (b.limit ≤ 0 ∨ a < b.limit) := fun x => h (x.imp (by omega) id)
    simp [h]


/-! ## the reading loops of the `Scan` methods, LoadAmmo (round 2)

`Model.C08Scan.roundEof` / `roundTop` are the round functions `Proofs/C08Scan.lean` is about (`src_lines`: the
line-level decoder is the abstract cyclic source of every provider theorem).  The proofs go through all outcomes of the
read and all branches, so the order of independent statements in the Go loops does not matter. -/

theorem uriScanRound_eq (passes : Nat) (c : Bool) (rd : Rd) (a p : Nat) :
    uriScanRound passes c rd a p = roundEof passes c rd a p := by
  unfold uriScanRound roundEof
  cases rd <;> cases c <;> (try simp) <;> (repeat' split) <;> (try simp_all) <;> (try omega)

theorem rawScanRound_eq (passes : Nat) (c : Bool) (rd : Rd) (a p : Nat) :
    rawScanRound passes c rd a p = roundEof passes c rd a p := by
  unfold rawScanRound roundEof
  cases rd <;> cases c <;> (try simp) <;> (repeat' split) <;> (try simp_all) <;> (try omega)

theorem uripostScanRound_eq (passes : Nat) (c : Bool) (rd : Rd) (a p : Nat) :
    uripostScanRound passes c rd a p = roundEof passes c rd a p := by
  unfold uripostScanRound roundEof
  cases rd <;> cases c <;> (try simp) <;> (repeat' split) <;> (try simp_all) <;> (try omega)

theorem jsonlScanRound_eq (passes : Nat) (c : Bool) (rd : Rd) (a p : Nat) :
    jsonlScanRound passes c rd a p = roundTop passes c rd a p := by
  unfold jsonlScanRound roundTop
  cases rd <;> (try simp) <;> (repeat' split) <;> (try simp_all) <;> (try omega)

/-- the round function of every stream decoder kind -/
theorem roundOf_eq (k : Kind) : roundOf (styleOf k) =
    match k with
    | .uripost => uripostScanRound
    | .raw => rawScanRound
    | .jsonLines => jsonlScanRound
    | _ => uriScanRound := by
  funext passes c rd a p
  cases k <;> simp [styleOf, roundOf, uriScanRound_eq, rawScanRound_eq, uripostScanRound_eq, jsonlScanRound_eq]

/-- a read of the ammo file that fails (`Rd.bad`) ends `Scan` of every stream decoder with that error (json lines:
unless the pass bound was reached before the read) -/
theorem scanBad_eq (passes a p : Nat) :
    uriScanRound passes false .bad a p = .ret .failed a p ∧ rawScanRound passes false .bad a p = .ret .failed a p ∧
    uripostScanRound passes false .bad a p = .ret .failed a p ∧
    jsonlScanRound passes false .bad a p = (if passes ≠ 0 ∧ passes ≤ p then .ret .errPass a p else .ret .failed a p) := by
  refine ⟨rfl, rfl, rfl, ?_⟩
  unfold jsonlScanRound
  by_cases h : passes ≠ 0 ∧ passes ≤ p
  · have h' : passes ≠ 0 ∧ p ≥ passes := h
    simp [h]
  · have h' : ¬ (passes ≠ 0 ∧ p ≥ passes) := h
    simp only [if_neg h]

/-- uripost.go's outer loop allows as many rewinds per call as the model, and ends like it -/
theorem scanWraps_eq : scanWraps = uripostScanWraps ∧ uripostScanExhausted = .unexpected := ⟨rfl, rfl⟩

/-- the limit check that opens every `Scan` is the one of `scanFile` / `scanStream` -/
theorem scanLimit_eq (limit a : Nat) :
    (uriScanLimit limit a ↔ (limit ≠ 0 ∧ limit ≤ a)) ∧ (rawScanLimit limit a ↔ (limit ≠ 0 ∧ limit ≤ a)) ∧
    (uripostScanLimit limit a ↔ (limit ≠ 0 ∧ limit ≤ a)) ∧ (jsonlScanLimit limit a ↔ (limit ≠ 0 ∧ limit ≤ a)) := by
  unfold uriScanLimit rawScanLimit uripostScanLimit jsonlScanLimit
  refine ⟨?_, ?_, ?_, ?_⟩ <;> constructor <;> intro h <;> exact ⟨h.1, h.2⟩

/-- `LoadAmmo` scans with Passes = 1, Limit = 0 (`loadLines`, `Model.C08.loadAmmo`: `scan ⟨0, 1⟩`; whether the configured
bounds are restored afterwards does not matter: the preloading provider never scans again), keeps an ammo exactly when the scan returned one and goes on exactly while the scan returned no
error (`Scan` returns an ammo ⇔ it returns no error ⇔ `SRes.ammo`), and hands every error on but ErrPassLimit -/
theorem loadAmmo_eq (passes limit : Nat) (r : SRes) :
    (⟨loadAmmoLimit limit, loadAmmoPasses passes⟩ : Bounds) = ⟨0, 1⟩ ∧
    loadStepOf r = ⟨loadAmmoKeeps (decide (r = .ammo)) (decide (r = .ammo)), loadAmmoGoesOn (decide (r = .ammo))⟩ ∧
    loadResOf r = loadAmmoMap r := by
  refine ⟨rfl, ?_, rfl⟩
  cases r <;> simp [loadStepOf, loadAmmoKeeps, loadAmmoGoesOn]

/-- `Provider.loadAmmo`: a failed LoadAmmo ends `Run` with the context's own error exactly when the context is
cancelled and that is what ended the load (`Model.C08Mach.stepOf … .unloaded`: `.ret .canceled`); every other failure is
wrapped (class kept) — and no ammo is dropped without a ChosenCases filter -/
theorem httpLoadFail_eq (c : Bool) (e : SRes) :
    (httpLoadFail c e = .canceled ↔ httpLoadCtxErr (c = true) (e = .canceled)) ∧ httpLoadWraps = true ∧
    (httpLoadKeeps True ↔ True) := by
  refine ⟨?_, rfl, by simp [httpLoadKeeps]⟩
  unfold httpLoadFail httpLoadCtxErr
  cases c <;> cases e <;> simp

/-! ## Acquire (round 2) -/

/-- `Acquire` of every provider family is a plain blocking receive from the sink that reports the end of ammo exactly
when the receive reports the closed, drained channel — the consumer transitions of `Sys.next`: `hand` / `recv` complete
an Acquire with an ammo, `eoa` (enabled only when `closed ∧ buf = []`) with ok=false, nothing else does -/
theorem acquire_eq :
    (acquireHttpBlocks && acquireHttpEndOnClosed && acquireHttpEndOnlyOnClosed &&
     acquireScenarioBlocks && acquireScenarioEndOnClosed && acquireScenarioEndOnlyOnClosed &&
     acquireGrpcBlocks && acquireGrpcEndOnClosed && acquireGrpcEndOnlyOnClosed &&
     acquireQueueBlocks && acquireQueueEndOnClosed && acquireQueueEndOnlyOnClosed) = true ∧
    (∀ (inp : Input) (n cap cons : Nat) (s s' : Sys) (c : Nat), s.next inp n cap cons (.eoa c) = some s' →
      s.closed = true ∧ s.buf = []) := by
  refine ⟨rfl, ?_⟩
  intro inp n cap cons s s' c h
  simp only [Sys.next] at h
  split at h
  · rename_i hc; exact ⟨hc.1, hc.2.1⟩
  · cases h

/-! ## the engine's reaction to the provider's result -/

/-- `Model.C08.poolFailsOnProvider` is awaitRun's provider case over errutil.IsCtxError: nil never fails the pool,
context.Canceled (unwrapped: its Cause is the run context's error exactly when that context is cancelled) fails it
only while the run context is live, every other error does -/
theorem poolFails_eq (r : RunRes) (c : Bool) :
    poolFailsOnProvider r c = true ↔ providerFailsPool (isCtxError (r = .nil) (r = .canceled ∧ c = true)) := by
  unfold providerFailsPool isCtxError
  cases r <;> cases c <;> simp [poolFailsOnProvider]

/-! ## the chosencases filter and the counters (round 4) -/

/-- an entry the chosencases filter rejects leaves runFullScan's counter alone — the limit counts DELIVERED ammo (the `else`
branch of `Model.C08.fullScan`: the same `out`): whatever else the iteration does (cancel, limit reached, a complete pass that
delivered nothing), on a rejected entry it goes round again in the same state.  Counting an entry before the filter looks at
it breaks this. -/
theorem fullScan_rejected (limit k pn i : Nat) (c : Bool) :
    runFullScanStep limit c k pn (ScanRes.ammo i) false =
      if c then Act.ret .canceled
      else if limit ≠ 0 ∧ limit ≤ k then Act.ret .nil
      else if k = 0 ∧ 0 < pn then Act.ret .errNoAmmo
      else Act.tau k := by
  unfold runFullScanStep
  repeat' split
  all_goals simp_all
  all_goals omega

/-- … and so does the inner loop of grpcjson `start` (`Model.C08.grpcLoop`: a rejected line advances `pos` only) -/
theorem grpcInner_rejected (k : Nat) : grpcInnerStep k false = Act.tau k := by
  unfold grpcInnerStep
  simp

/-- … a chosen one is counted once and offered -/
theorem grpcInner_chosen (k : Nat) : grpcInnerStep k true = Act.offer 0 (k + 1) := by
  unfold grpcInnerStep
  simp

/-! ## data sources of the generic JSON provider (round 4) -/

/-- what `OpenSource` of every source of core/datasource hands out — classified by go/types from the current source: a value
whose static type has `Seek`, the reader the source was built from as it is, or a value whose `Seek` is hidden — is what
`Model.C08.opensOf` says.  Returning inline data behind `ioutil.NopCloser` (which hides `Seek`) breaks this at `.inline`;
dropping the ReadSeeker branch of `readerSource.OpenSource` at `.readSeeker`. -/
theorem srcOpens_eq (k : SrcKind) : opensOf k =
    match k with
    | .file => srcOpensFile
    | .inline => srcOpensInline
    | .buffer => srcOpensBuffer
    | .readSeekCloser => srcOpensReader true true
    | .readSeeker => srcOpensReader false true
    | .readCloser => srcOpensReader true false
    | .reader => srcOpensReader false false := by
  cases k <;> rfl

/-- `NewMultiPassReader` hands the source itself to the decoder — one pass — exactly when the model's `effPasses` is 1:
`passes: 1`, or a source that cannot `Seek` whatever `passes` says -/
theorem mprOnce_eq (passes : Nat) (hasSeek : Bool) : mprOnce passes hasSeek = true ↔ effPasses hasSeek passes = 1 := by
  unfold mprOnce effPasses
  cases hasSeek <;> simp

/-- … and for a source that can Seek this is the bypass rule the replay model of `MultiPassReader` starts from -/
theorem mprOnce_bypass (passes : Nat) : mprOnce passes true = true ↔ mprBypass passes := by
  unfold mprOnce mprBypass
  simp

/-- `DecodeProvider.Run` gives `NewMultiPassReader` what `OpenSource` returned, as it is (no wrapper in between that could
hide or add a `Seek`) -/
theorem decodeReads_opened : decodeReadsOpened = true := rfl

/-! ## the types of the options (round 4) -/

/-- `limit` / `passes` of every provider family have the Go type `Model.C08.Kind.boundTy` says — `uint` for the http
formats and the scenario providers (so every value up to 2^64-1 is a valid option value, and `C08_replay_no_wrap` is
about the right machine integers), `int` for grpc/json and the generic JSON provider — and the streaming decoders count
in the type they compare with -/
theorem optTypes_eq :
    (∀ k : Kind, (k.boundTy, k.boundTy) =
      match k with
      | .uri | .uripost | .raw | .jsonLines | .jsonArray => httpOptTy
      | .httpScenario | .grpcScenario => scenarioOptTy
      | .grpcJson => grpcOptTy
      | .genericJson => decodeOptTy) ∧
    httpDecCtrTy = httpOptTy := by
  refine ⟨?_, rfl⟩
  intro k
  cases k <;> rfl

/-! ## the token limit of the line scanners, pass by pass (round 6) -/

/-- grpc/json: the scanner of EVERY pass is given the configured buffer (`maxammosize`, else bufio.MaxScanTokenSize) — the
regenerated limit (scanner set-up executed over three iterations of the pass loop of `start`) is the one `Model.C08.lineMax`
says, whatever the pass counter.  A set-up hoisted out of the loop with a plain `bufio.NewScanner` after the seek gives
`Model.C08.lineMaxFirstOnly` instead and breaks this. -/
theorem grpcScanMax_eq (mas passNum : Nat) : lineMax .grpcJson mas passNum = some (grpcScanMax mas passNum) := by
  by_cases h : passNum ≤ 1 <;> simp [lineMax, grpcScanMax, tokMax, defaultTok, h]

/-- uri: the scanner newURIDecoder builds and the one `Scan` builds after every seek have no limit below math.MaxInt -/
theorem uriScanMax_eq (mas passNum : Nat) : lineMax .uri mas passNum = some (uriScanMax passNum) := by
  by_cases h : passNum ≤ 1 <;> simp [lineMax, uriScanMax, maxInt, h]

/-! ## option defaults (round 6) -/

/-- a generic JSON provider whose config mentions neither `limit` nor `passes` gets 0 / 0 — the unbounded cell of the theorems
(`Spec.C08.expected 0 0 n = none`) —, and the registered `type: json` factory starts from exactly that default -/
theorem decodeDefaults_eq : decodeDefaultBounds = (0, 0) ∧ decodeDefaultEmbedded = true ∧
    ∀ n, Spec.C08.expected decodeDefaultBounds.1 decodeDefaultBounds.2 n = none := by
  refine ⟨rfl, rfl, fun n => rfl⟩

end Pandora.Bridge.ProvLoops
