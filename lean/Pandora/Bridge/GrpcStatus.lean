/-
Bridge C10: the regenerated definitions (`Pandora/Gen/GrpcStatus.lean`, rewritten from /repo's current source on
every check run) agree with what the hand-written model assumes.  If the source changes any of these, this file
stops compiling and the check reports a broken obligation.
-/
import Pandora.Gen.GrpcStatus
import Pandora.Model.C10
import Pandora.Model.C10Paths
import Pandora.Model.C10R6
import Pandora.Spec.C10

namespace Pandora.Bridge.GrpcStatus
open Pandora.Model.C10

/-- the model's gRPC table is the switch of `ConvertGrpcStatus` -/
theorem grpcToHttp_eq (c : Nat) : Gen.GrpcStatus.grpcToHttp c = grpcToHttp c := by
  unfold Gen.GrpcStatus.grpcToHttp grpcToHttp
  repeat' split
  all_goals first | rfl | omega

theorem protoCodeError_eq : Gen.GrpcStatus.protoCodeError = protoCodeError := rfl
theorem errnoDefault_eq : Gen.GrpcStatus.errnoDefault = protoCodeError := rfl
theorem timeoutErrno_eq : Gen.GrpcStatus.timeoutErrno = timeoutErrno := rfl
theorem emptyTag_eq : Gen.GrpcStatus.emptyTag = emptyTag := rfl
theorem scenarioEmptyTag_eq : Gen.GrpcStatus.scenarioEmptyTag = emptyTag := rfl

/-- `getErrno` follows `.Err` of exactly the three wrapper types of `Err.opError/syscallError/urlError`
and returns the value of a `syscall.Errno` leaf -/
theorem errnoUnwrapTypes_eq :
    Gen.GrpcStatus.errnoUnwrapTypes = ["*net.OpError", "*os.SyscallError", "*url.Error"] := rfl
theorem errnoLeafType_eq : Gen.GrpcStatus.errnoLeafType = "syscall.Errno" := rfl

/-- model hypothesis `connectHook = none`: no non-test code of the repo sets `BaseGun.Connect` -/
theorem no_connect_hook : Gen.GrpcStatus.connectHookAssignments = [] := rfl

/-! ### the documented table -/

/-- look a code up in table rows, with a default -/
def lookupRows (rows : List (Nat × Nat)) (d c : Nat) : Nat :=
  match rows.find? (fun r => r.1 == c) with
  | some r => r.2
  | none => d

/-- the hand-written `Spec.C10.docTable` (what the executable Spec judges real samples by) IS the table of
docs/eng/grpc-generator.md as regenerated from the markdown file, for every code -/
theorem docTable_eq_doc (c : Nat) :
    Spec.C10.docTable c = lookupRows Gen.GrpcStatus.docRows Gen.GrpcStatus.docDefault c := by
  by_cases h : c < 17
  · have hfin : ∀ c, c < 17 → Spec.C10.docTable c = lookupRows Gen.GrpcStatus.docRows Gen.GrpcStatus.docDefault c := by
      decide
    exact hfin c h
  · obtain ⟨k, rfl⟩ : ∃ k, c = k + 17 := ⟨c - 17, by omega⟩
    simp [lookupRows, Gen.GrpcStatus.docRows, Gen.GrpcStatus.docDefault, Spec.C10.docTable, List.find?]

/-! ### the id counter: `Model.C10.nextID` is one atomic `Add(1)` on a `uint64` that nothing else touches -/

theorem idCounterType_eq : Gen.GrpcStatus.idCounterType = "sync/atomic.Uint64" := rfl
theorem nextIDShape_eq : Gen.GrpcStatus.nextIDShape = "return idCounter.Add(1)" := rfl
theorem idCounterOtherUses_eq : Gen.GrpcStatus.idCounterOtherUses = [] := rfl

/-! ### sample-relevant slices: the decision trees of `Model.C10` (`shootHttp`, `stepHttp`/`shootScenario`, `shootGrpc`,
`stepGrpc`/`shootGrpcScenario`, `addTag`, `autotagChars`, `ShotPlan.toShot`) were written against exactly this code.
A change to any statement that creates, fills or reports a sample breaks one of these lemmas; renaming locals
(printed as v1, v2 … in order of appearance), reordering independent setter calls and touching statements outside the
slice (logging, tracing, dumping, timing) does not (see gen/area_grpcstatus_slices.go). -/

theorem sliceBaseShoot_eq : Gen.GrpcStatus.sliceBaseShoot = [
  "if v1.Aggregator == nil {",
  "  zap.L().Panic(\"must bind before shoot\")",
  "}",
  "if v1.Connect != nil {",
  "  v2 := v1.Connect(v1.Ctx)",
  "  if v2 != nil {",
  "    return",
  "  }",
  "}",
  "v3, v4 := v5.Request()",
  "if v5.IsInvalid() {",
  "  v4.AddTag(EmptyTag)",
  "  v4.SetProtoCode(0)",
  "  v1.Aggregator.Report(v4)",
  "  return",
  "}",
  "if v1.Config.AutoTag.Enabled && (!v1.Config.AutoTag.NoTagOnly || v4.Tags() == \"\") {",
  "  v4.AddTag(autotag(v1.Config.AutoTag.URIElements, v3.URL))",
  "}",
  "if v4.Tags() == \"\" {",
  "  v4.AddTag(EmptyTag)",
  "}",
  "var v6 error",
  "defer func() {",
  "  if v6 != nil {",
  "    v4.SetErr(v6)",
  "  }",
  "  v1.Aggregator.Report(v4)",
  "  v6 = errors.WithStack(v6)",
  "}()",
  "v7, v6 = v1.Client.Do(v3)",
  "if v6 != nil {",
  "  return",
  "}",
  "v4.SetProtoCode(v7.StatusCode)",
  "_, v6 = io.Copy(ioutil.Discard, v7.Body)",
  "if v6 != nil {",
  "  return",
  "}"] := rfl

theorem srcAutotag_eq : Gen.GrpcStatus.srcAutotag = [
  "v1 := v2.Path",
  "var v3 int",
  "for ; v3 < len(v1); v3++ { if v1[v3] == '/' { if v4 == 0 { break } v4-- } }",
  "return v1[:v3]"] := rfl

theorem sliceScenarioShoot_eq : Gen.GrpcStatus.sliceScenarioShoot = [
  "if v1.base.Aggregator == nil {",
  "  zap.L().Panic(\"must bind before shoot\")",
  "}",
  "if v1.base.Connect != nil {",
  "  v2 := v1.base.Connect(v1.base.Ctx)",
  "  if v2 != nil {",
  "    return",
  "  }",
  "}",
  "v3 := v1.shoot(v4, map[string]any{ \"source\": v4.VariableStorage.Variables(), })",
  "if v3 != nil {",
  "  return",
  "}"] := rfl

theorem sliceScenarioShootLoop_eq : Gen.GrpcStatus.sliceScenarioShootLoop = [
  "for _, v1 := range v2.Requests {",
  "  v3 := v2.Name + \".\" + v1.Name",
  "  v4 := netsample.Acquire(v3)",
  "  v5 := v6.shootStep(v1, v4, v2.Name, v7, v8, v9.String())",
  "  if v5 != nil {",
  "    v6.reportErr(v4, v5)",
  "    return v5",
  "  }",
  "}",
  "return nil"] := rfl

theorem sliceScenarioShootStep_eq : Gen.GrpcStatus.sliceScenarioShootStep = [
  "if v1.Preprocessor != nil {",
  "  v2, v3 := v1.Preprocessor.Process(v4)",
  "  if v3 != nil {",
  "    return fmt.Errorf(\"%s preProcessor %w\", v5, v3)",
  "  }",
  "}",
  "if v6 := v1.Templater.Apply(&v7, v4, v8, v1.Name); v6 != nil {",
  "  return fmt.Errorf(\"%s templater.Apply %w\", v5, v6)",
  "}",
  "v9, v10 := v11.prepareRequest(v7)",
  "if v10 != nil {",
  "  return fmt.Errorf(\"%s prepareRequest %w\", v5, v10)",
  "}",
  "v12, v10 := v11.base.Client.Do(v9)",
  "if v10 != nil {",
  "  return fmt.Errorf(\"%s g.Do %w\", v5, v10)",
  "}",
  "v13 := v1.Postprocessors",
  "if v11.base.Config.AnswLog.Enabled || v11.base.DebugLog || len(v13) > 0 {",
  "  v14, v10 = io.ReadAll(v12.Body)",
  "} else {",
  "  _, v10 = io.Copy(io.Discard, v12.Body)",
  "}",
  "if v10 != nil {",
  "  return fmt.Errorf(\"%s io.Copy %w\", v5, v10)",
  "}",
  "for _, v15 := range v13 {",
  "  v16, v10 = v15.Process(v12, v17)",
  "  if v10 != nil {",
  "    return fmt.Errorf(\"%s postprocessor.Postprocess %w\", v5, v10)",
  "  }",
  "  _, v10 = v17.Seek(0, io.SeekStart)",
  "  if v10 != nil {",
  "    return fmt.Errorf(\"%s postprocessor.Postprocess %w\", v5, v10)",
  "  }",
  "}",
  "v18.SetProtoCode(v12.StatusCode)",
  "v11.base.Aggregator.Report(v18)",
  "return nil"] := rfl

theorem sliceScenarioReportErr_eq : Gen.GrpcStatus.sliceScenarioReportErr = [
  "if v1 == nil {",
  "  return",
  "}",
  "v2.AddTag(EmptyTag)",
  "v2.SetErr(v1)",
  "v2.SetProtoCode(0)",
  "v3.base.Aggregator.Report(v2)"] := rfl

theorem sliceGrpcShoot_eq : Gen.GrpcStatus.sliceGrpcShoot = [
  "v1.shoot(v2.(*ammo.Ammo))"] := rfl

theorem sliceGrpcShootInner_eq : Gen.GrpcStatus.sliceGrpcShootInner = [
  "v1 := 0",
  "v2 := netsample.Acquire(v3.Tag)",
  "defer func() {",
  "  v2.SetProtoCode(v1)",
  "  v4.Aggr.Report(v2)",
  "}()",
  "if v3.IsInvalid() {",
  "  return",
  "}",
  "v5, v6 := v4.Services[v3.Call]",
  "if !v6 {",
  "  return",
  "}",
  "v7, v8 := json.Marshal(v3.Payload)",
  "if v8 != nil {",
  "  return",
  "}",
  "v8 = v9.UnmarshalJSON(v7)",
  "if v8 != nil {",
  "  v1 = 400",
  "  return",
  "}",
  "v10, v11 := v4.Stub.InvokeRpc(v12, &v5, v9)",
  "v1 = ConvertGrpcStatus(v11)"] := rfl

theorem sliceGrpcScenarioShoot_eq : Gen.GrpcStatus.sliceGrpcScenarioShoot = [
  "v1 := v2.shoot(v3, v4)",
  "if v1 != nil {",
  "  return",
  "}"] := rfl

theorem sliceGrpcScenarioShootLoop_eq : Gen.GrpcStatus.sliceGrpcScenarioShootLoop = [
  "for _, v1 := range v2.Calls {",
  "  v3 := v4.shootStep(&v1, netsample.Acquire(v2.Name + \".\" + v1.Tag), v2.Name, v5, v6)",
  "  if v3 != nil {",
  "    return v3",
  "  }",
  "}",
  "return nil"] := rfl

theorem sliceGrpcScenarioShootStep_eq : Gen.GrpcStatus.sliceGrpcScenarioShootStep = [
  "v1 := 0",
  "defer func() {",
  "  v2.SetProtoCode(v1)",
  "  v3.gun.Aggr.Report(v2)",
  "}()",
  "for _, v4 := range v5.Preprocessors {",
  "  v6, v7 := v4.Process(v5, v8)",
  "  if v7 != nil {",
  "    return fmt.Errorf(\"%s preProcessor %w\", v9, v7)",
  "  }",
  "}",
  "v10, v11 := v3.templ.Apply(v5.Payload, v12, v8, v13, v5.Name)",
  "if v11 != nil {",
  "  return fmt.Errorf(\"%s templater.Apply %w\", v9, v11)",
  "}",
  "v14, v15 := v3.gun.Services[v5.Call]",
  "if !v15 {",
  "  return fmt.Errorf(\"%s invalid step.Call\", v9)",
  "}",
  "v11 = v16.UnmarshalJSON(v10)",
  "if v11 != nil {",
  "  v1 = 400",
  "  return fmt.Errorf(\"%s invalid payload. Cant unmarshal gRPC\", v9)",
  "}",
  "v17, v18 := v3.gun.Stub.InvokeRpc(v19, &v14, v16)",
  "v1 = grpcgun.ConvertGrpcStatus(v18)",
  "v2.SetProtoCode(v1)",
  "for _, v20 := range v5.Postprocessors {",
  "  v21, v22 := v20.Process(v17, v1)",
  "  if v22 != nil {",
  "    return fmt.Errorf(\"%s postProcessor %w\", v9, v22)",
  "  }",
  "}",
  "if v17 != nil {",
  "  v11 = v16.ConvertFrom(v17)",
  "  if v11 != nil {",
  "    return fmt.Errorf(\"%s message.ConvertFrom `%s`; err: %w\", v9, v17.String(), v11)",
  "  }",
  "  v23, v24 := v16.MarshalJSON()",
  "  if v24 != nil {",
  "    return fmt.Errorf(\"%s message.MarshalJSON %w\", v9, v24)",
  "  }",
  "  v24 = json.Unmarshal(v23, &v25)",
  "  if v24 != nil {",
  "    return fmt.Errorf(\"%s json.Unmarshal %w\", v9, v24)",
  "  }",
  "}",
  "return nil"] := rfl

theorem srcAcquire_eq : Gen.GrpcStatus.srcAcquire = [
  "v1 := samplePool.Get().(*Sample)",
  "*v1 = Sample{ timeStamp: time.Now(), tags: v2, }",
  "return v1"] := rfl

theorem srcAddTag_eq : Gen.GrpcStatus.srcAddTag = [
  "if v1.tags == \"\" { v1.tags = v2 return }",
  "v1.tags += \"|\" + v2"] := rfl

theorem srcSetID_eq : Gen.GrpcStatus.srcSetID = [
  "v1.id = v2"] := rfl

theorem srcSetProtoCode_eq : Gen.GrpcStatus.srcSetProtoCode = [
  "v1.set(keyProtoCode, v2)",
  "v1.setRTT()"] := rfl

theorem srcSetErr_eq : Gen.GrpcStatus.srcSetErr = [
  "v1.err = v2",
  "v1.set(keyErrno, getErrno(v2))",
  "v1.setRTT()"] := rfl

theorem srcGunAmmoRequest_eq : Gen.GrpcStatus.srcGunAmmoRequest = [
  "v1 := netsample.Acquire(v2.tag)",
  "v1.SetID(v2.id)",
  "return v2.req, v1"] := rfl

theorem srcNewGunAmmo_eq : Gen.GrpcStatus.srcNewGunAmmo = [
  "return GunAmmo{ req: v1, id: v2, tag: v3, }"] := rfl

theorem sliceHTTPProviderAcquire_eq : Gen.GrpcStatus.sliceHTTPProviderAcquire = [
  "v1, v2 := <-v3.Sink",
  "if !v2 {",
  "  return nil, false",
  "}",
  "v4, v5 := v1.BuildRequest()",
  "if v5 != nil {",
  "  return v1, false",
  "}",
  "for _, v6 := range v3.Middlewares {",
  "  v7 := v6.UpdateRequest(v4)",
  "  if v7 != nil {",
  "    return v1, false",
  "  }",
  "}",
  "return httpProvider.NewGunAmmo(v4, v1.Tag(), v3.NextID()), v2"] := rfl

/-! ### round 3: which client does the exchange, the pause of a scenario step -/

/-- `Model.C10.clientDo`: the path summary of `NewRedirectingClient` — `redirect` (its second argument) true returns a
`redirectClient` (an `*http.Client` with the default policy: `followDo`), false a `noRedirectClient` … (a path summary:
reordering the branches or naming the results does not change it, returning a `redirectClient` for `false` does) -/
theorem pathsNewRedirectingClient_eq : sameSet Gen.GrpcStatus.pathsNewRedirectingClient
    [("redirectClient", ["arg1=true"]), ("noRedirectClient", ["arg1=false"])] = true := by decide

/-- … whose `Do` is the bare `RoundTrip` (`bareDo`: the first answer is handed back as it came, `Location` unread) -/
theorem srcNoRedirectClientDo_eq : Gen.GrpcStatus.srcNoRedirectClientDo = [
  "return v1.Transport.RoundTrip(v2)"] := rfl

/-- `PauseMode.sleeps`: the pause of a scenario step is `time.Sleep`, which no context interrupts -/
theorem srcScenarioPause_eq : Gen.GrpcStatus.srcScenarioPause = [
  "if v1.Sleep > 0 { time.Sleep(v1.Sleep) }"] := rfl
theorem srcGrpcScenarioPause_eq : Gen.GrpcStatus.srcGrpcScenarioPause = [
  "if v1.Sleep > 0 { time.Sleep(v1.Sleep) }"] := rfl

/-! ### round 3: PATH SUMMARIES. The translator walks every path through the functions that report samples (callees
inlined, deferred closures run at the exits that passed them) and keeps, per path, the exit and the events: setter calls,
`Report` calls, the exchange results the path branches on. Nothing of the source TEXT survives in them (names, temporaries,
order of independent statements, logging / tracing / templating code), so these lemmas survive refactorings that the
slices above report; a path that reports twice, not at all, before the code is set or without the error breaks them.
Each regenerated set is (as a set) the set of paths the MODEL's decision tree takes (`Model/C10Paths.lean`). -/

section paths
open Gen.GrpcStatus

/-- `BaseGun.Shoot`: apart from the "must bind before shoot" panic (before anything happens) its paths are `shootHttp`'s -/
theorem pathsBaseShoot_model : sameSet (pathsBaseShoot.filter (·.1 != "panic")) httpPaths = true := by decide
theorem pathsBaseShoot_panic : pathsBaseShoot.filter (·.1 == "panic") = [("panic", [])] := by decide

/-- http scenario `shootStep` = `stepHttp`; the step loop run for at most one step = `shootScenario`'s iteration;
`Shoot` adds nothing but the bind check -/
theorem pathsScenarioShootStep_model : sameSet pathsScenarioShootStep stepPaths = true := by decide
theorem pathsScenarioShootLoop_model : sameSet pathsScenarioShootLoop loopPaths = true := by decide
theorem pathsScenarioShoot_model :
    sameSet (pathsScenarioShoot.filter (·.1 != "panic")) (loopPaths.map fun p => ("void", p.2)) = true := by decide
theorem pathsScenarioShoot_panic : pathsScenarioShoot.filter (·.1 == "panic") = [("panic", [])] := by decide

/-- gRPC gun `shoot` = `shootGrpc`; gRPC scenario `shootStep` = `stepGrpc`, its loop = `shootGrpcScenario`'s iteration -/
theorem pathsGrpcShoot_model : sameSet pathsGrpcShoot grpcPaths = true := by decide
theorem pathsGrpcScenarioShootStep_model : sameSet pathsGrpcScenarioShootStep grpcStepPaths = true := by decide
theorem pathsGrpcScenarioShootLoop_model : sameSet pathsGrpcScenarioShootLoop grpcLoopPaths = true := by decide

/-! what the property needs, read off the REGENERATED sets directly -/

/-- every path of the plain guns that does not panic reports exactly once -/
theorem paths_report_once :
    (∀ p ∈ pathsBaseShoot, p.1 ≠ "panic" → reportCount p.2 = 1) ∧ (∀ p ∈ pathsGrpcShoot, reportCount p.2 = 1) := by decide

/-- a scenario shot reports exactly once per step it enters (the loop run for at most one step: no `Report` only when no
step was entered), whether the step passes or fails, with or without a pause -/
theorem paths_scenario_report_once_per_step :
    (∀ p ∈ pathsScenarioShootLoop, reportCount p.2 ≤ 1 ∧ (reportCount p.2 = 0 → p.2.all (· == "Sleep") = true)) ∧
    (∀ p ∈ pathsGrpcScenarioShootLoop, reportCount p.2 ≤ 1 ∧ (reportCount p.2 = 0 → p.2.all (· == "Sleep") = true)) ∧
    (∀ p ∈ pathsGrpcScenarioShootStep, reportCount p.2 = 1) := by decide

/-- the status is on the sample before it is reported whenever a response was received; the error whenever the exchange
or the body failed -/
theorem paths_codes_before_report :
    (∀ p ∈ pathsBaseShoot, p.2.contains "Do=ok" = true → (beforeReport p.2).contains "SetProtoCode" = true) ∧
    (∀ p ∈ pathsBaseShoot, (p.2.contains "Do=err" || p.2.contains "Body=err") = true → (beforeReport p.2).contains "SetErr" = true) ∧
    (∀ p ∈ pathsScenarioShootLoop, reportCount p.2 = 1 → (beforeReport p.2).contains "SetProtoCode" = true) ∧
    (∀ p ∈ pathsScenarioShootLoop, p.1 = "err" → (beforeReport p.2).contains "SetErr" = true) := by decide

/-- a step's pause comes after its sample has been reported (http) and never ends the step with an error -/
theorem paths_pause_after_report :
    (∀ p ∈ pathsScenarioShootStep, p.2.contains "Sleep" = true → p.1 = "nil" ∧ (beforeReport p.2).contains "Sleep" = false) ∧
    (∀ p ∈ pathsGrpcScenarioShootStep, p.2.contains "Sleep" = true → p.1 = "nil") := by decide

end paths

/-! round 4: the dialers of the http guns, the grpc/json line decoder -/

/-- `NewDNSCachingDialer` builds no error from the error of its dial (`Model.C10.cachingDial` is the identity); the
one error it does build wraps what `SplitHostPort` said about an address that was dialled successfully -/
theorem dnsCachingDialer_returns_dial_error_as_is :
    Gen.GrpcStatus.dialWrapsDNSCachingDialer.all (fun w => w.2 != "DialContext") = true := by decide

/-- `newConnectDialFunc` wraps the error of its dial once, with `errors.WithStack` (`Model.C10.connectDial` = one
`causer` around it) -/
theorem connectDialFunc_wraps_dial_error :
    (Gen.GrpcStatus.dialWrapsConnectDialFunc.filter (fun w => w.2 == "DialContext")) = [("WithStack", "DialContext")] := by
  decide

/-- `decodeAmmo` unmarshals the line into a variable of its own and overwrites the pooled object by `Reset` — with the
decoded fields, or with nothing when the line cannot be decoded (`Model.C10.deliver`); `Reset` assigns the WHOLE struct
(`AmmoObj.reset`: also the id and the invalid flag) -/
theorem decodeAmmo_eq :
    Gen.GrpcStatus.decodeAmmoTarget = "local" ∧
    Gen.GrpcStatus.decodeAmmoResets = ["\"\", \"\", nil, nil", "fresh.Tag, fresh.Call, fresh.Metadata, fresh.Payload"] ∧
    Gen.GrpcStatus.srcGrpcAmmoReset = ["*v1 = Ammo{v2, v3, v4, v5, 0, false}"] := by decide

/-- the instances' `Release` puts the ammo object back into the pool AS IT IS (`Model.C10.runAmmoPool`: the delivered
object `a` itself goes back; the harness's pre-seeded pool states are the states a release leaves) -/
theorem grpcProviderRelease_eq : Gen.GrpcStatus.srcGrpcProviderRelease = ["v1.Pool.Put(v2)"] := by decide

/-! ## round 6: option defaults, registrations, the discarded-shot sample -/

/-- the http-family guns and the defaults function each decodes its config over (`register.Gun`) -/
theorem gunDefaultConfig_eq : Gen.GrpcStatus.gunDefaultConfig =
    [("connect", "DefaultConnectGunConfig"), ("http", "DefaultHTTPGunConfig"), ("http/scenario", "DefaultHTTPGunConfig"),
     ("http2", "DefaultHTTP2GunConfig"), ("http2/scenario", "DefaultHTTP2GunConfig")] := by decide

/-- every defaults function builds the model's `defaultAutoTag` … -/
theorem autoTagDefaults_model : ∀ row ∈ Gen.GrpcStatus.autoTagDefaults,
    row.2 = (Model.C10.defaultAutoTag.enabled, Model.C10.defaultAutoTag.uriElements, Model.C10.defaultAutoTag.noTagOnly) := by decide

/-- … and every registered gun's defaults function is one of them: whichever http-family gun a pool names, an `auto-tag`
section is decoded over `Model.C10.defaultAutoTag` -/
theorem registered_guns_autoTag_default : ∀ g ∈ Gen.GrpcStatus.gunDefaultConfig,
    Gen.GrpcStatus.autoTagDefaults.lookup g.2 = some (false, 2, true) := by decide

/-- the model's defaults are the DOCUMENTED ones (docs/eng/http-generator.md, regenerated) -/
theorem docAutoTagDefaults_eq : Gen.GrpcStatus.docAutoTagDefaults =
    [("no-tag-only", toString Spec.C10.docNoTagOnly), ("uri-elements", toString Spec.C10.docUriElements)] := by decide

theorem defaultAutoTag_documented : Model.C10.defaultAutoTag.enabled = false ∧
    Model.C10.defaultAutoTag.uriElements = Spec.C10.docUriElements ∧ Model.C10.defaultAutoTag.noTagOnly = Spec.C10.docNoTagOnly := by decide

/-- `netsample.DiscardedShootSample()`: a NEW sample (not one of the pool) tagged `DiscardedShootTag` whose net code is set to
`DiscardedShootCodeError` by `SetUserNet` (= `set(keyErrno, …)`): `Model.C10.discardedSample` -/
theorem discardedShootSample_eq :
    Gen.GrpcStatus.discardedShootSampleFacts =
      ["call:SetUserNet(DiscardedShootCodeError)", "lit:tags=DiscardedShootTag", "lit:timeStamp=time.Now()", "pool:false", "returns:it"] ∧
    Gen.GrpcStatus.srcSetUserNet = ["v1.set(keyErrno, v2)"] ∧
    Gen.GrpcStatus.discardedTag = Model.C10.discardedTag ∧ Gen.GrpcStatus.discardedNet = Model.C10.discardedNet ∧
    Model.C10.discardedTag = Spec.C10.discardedTag ∧ Model.C10.discardedNet = Spec.C10.discardedNet := by decide

/-- `(*Waiter).IsSlowDown`: false once the context is done, else `overdueDuration >= MaxOverdueDuration`, and the threshold is
two seconds (`Model.C10.isSlowDown`, `maxOverdueNanos`) -/
theorem isSlowDown_eq :
    Gen.GrpcStatus.isSlowDownFacts = ["done:false", "live:recv.overdueDuration >= MaxOverdueDuration"] ∧
    Gen.GrpcStatus.maxOverdueNanos = Model.C10.maxOverdueNanos := by decide

end Pandora.Bridge.GrpcStatus
