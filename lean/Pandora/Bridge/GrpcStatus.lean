/-
Bridge C10: the regenerated definitions (`Pandora/Gen/GrpcStatus.lean`, rewritten from /repo's current source on
every check run) agree with what the hand-written model assumes.  If the source changes any of these, this file
stops compiling and the check reports a broken obligation.
-/
import Pandora.Gen.GrpcStatus
import Pandora.Model.C10

namespace Pandora.Bridge.GrpcStatus
open Pandora.Model.C10

/-- the model's gRPC table is the switch of `ConvertGrpcStatus` -/
theorem grpcToHttp_eq (c : Nat) : Gen.GrpcStatus.grpcToHttp c = grpcToHttp c := by
  unfold Gen.GrpcStatus.grpcToHttp grpcToHttp
  repeat' split
  all_goals first | rfl | omega

theorem protoCodeError_eq : Gen.GrpcStatus.protoCodeError = protoCodeError := rfl
theorem errnoDefault_eq : Gen.GrpcStatus.errnoDefault = protoCodeError := rfl
theorem timeoutErrno_eq : Gen.GrpcStatus.timeoutErrno = timeoutErrno := rfl
theorem emptyTag_eq : Gen.GrpcStatus.emptyTag = emptyTag := rfl
theorem scenarioEmptyTag_eq : Gen.GrpcStatus.scenarioEmptyTag = emptyTag := rfl

/-- `getErrno` follows `.Err` of exactly the three wrapper types of `Err.opError/syscallError/urlError`
and returns the value of a `syscall.Errno` leaf -/
theorem errnoUnwrapTypes_eq :
    Gen.GrpcStatus.errnoUnwrapTypes = ["*net.OpError", "*os.SyscallError", "*url.Error"] := rfl
theorem errnoLeafType_eq : Gen.GrpcStatus.errnoLeafType = "syscall.Errno" := rfl

/-- model hypothesis `connectHook = none`: no non-test code of the repo sets `BaseGun.Connect` -/
theorem no_connect_hook : Gen.GrpcStatus.connectHookAssignments = [] := rfl

end Pandora.Bridge.GrpcStatus
