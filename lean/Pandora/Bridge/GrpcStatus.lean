/-
Bridge C10: the regenerated definitions (`Pandora/Gen/GrpcStatus.lean`, rewritten from /repo's current source on
every check run) agree with what the hand-written model assumes.  If the source changes any of these, this file
stops compiling and the check reports a broken obligation.
-/
import Pandora.Gen.GrpcStatus
import Pandora.Model.C10
import Pandora.Spec.C10

namespace Pandora.Bridge.GrpcStatus
open Pandora.Model.C10

/-- the model's gRPC table is the switch of `ConvertGrpcStatus` -/
theorem grpcToHttp_eq (c : Nat) : Gen.GrpcStatus.grpcToHttp c = grpcToHttp c := by
  unfold Gen.GrpcStatus.grpcToHttp grpcToHttp
  repeat' split
  all_goals first | rfl | omega

theorem protoCodeError_eq : Gen.GrpcStatus.protoCodeError = protoCodeError := rfl
theorem errnoDefault_eq : Gen.GrpcStatus.errnoDefault = protoCodeError := rfl
theorem timeoutErrno_eq : Gen.GrpcStatus.timeoutErrno = timeoutErrno := rfl
theorem emptyTag_eq : Gen.GrpcStatus.emptyTag = emptyTag := rfl
theorem scenarioEmptyTag_eq : Gen.GrpcStatus.scenarioEmptyTag = emptyTag := rfl

/-- `getErrno` follows `.Err` of exactly the three wrapper types of `Err.opError/syscallError/urlError`
and returns the value of a `syscall.Errno` leaf -/
theorem errnoUnwrapTypes_eq :
    Gen.GrpcStatus.errnoUnwrapTypes = ["*net.OpError", "*os.SyscallError", "*url.Error"] := rfl
theorem errnoLeafType_eq : Gen.GrpcStatus.errnoLeafType = "syscall.Errno" := rfl

/-- model hypothesis `connectHook = none`: no non-test code of the repo sets `BaseGun.Connect` -/
theorem no_connect_hook : Gen.GrpcStatus.connectHookAssignments = [] := rfl

/-! ### the documented table -/

/-- look a code up in table rows, with a default -/
def lookupRows (rows : List (Nat × Nat)) (d c : Nat) : Nat :=
  match rows.find? (fun r => r.1 == c) with
  | some r => r.2
  | none => d

/-- the hand-written `Spec.C10.docTable` (what the executable Spec judges real samples by) IS the table of
docs/eng/grpc-generator.md as regenerated from the markdown file, for every code -/
theorem docTable_eq_doc (c : Nat) :
    Spec.C10.docTable c = lookupRows Gen.GrpcStatus.docRows Gen.GrpcStatus.docDefault c := by
  by_cases h : c < 17
  · have hfin : ∀ c, c < 17 → Spec.C10.docTable c = lookupRows Gen.GrpcStatus.docRows Gen.GrpcStatus.docDefault c := by
      decide
    exact hfin c h
  · obtain ⟨k, rfl⟩ : ∃ k, c = k + 17 := ⟨c - 17, by omega⟩
    simp [lookupRows, Gen.GrpcStatus.docRows, Gen.GrpcStatus.docDefault, Spec.C10.docTable, List.find?]

/-! ### the id counter: `Model.C10.nextID` is one atomic `Add(1)` on a `uint64` that nothing else touches -/

theorem idCounterType_eq : Gen.GrpcStatus.idCounterType = "sync/atomic.Uint64" := rfl
theorem nextIDShape_eq : Gen.GrpcStatus.nextIDShape = "return idCounter.Add(1)" := rfl
theorem idCounterOtherUses_eq : Gen.GrpcStatus.idCounterOtherUses = [] := rfl

/-! ### sample-relevant slices: the decision trees of `Model.C10` (`shootHttp`, `stepHttp`/`shootScenario`, `shootGrpc`,
`stepGrpc`/`shootGrpcScenario`, `addTag`, `autotagChars`, `ShotPlan.toShot`) were written against exactly this code.
A change to any statement that creates, fills or reports a sample breaks one of these lemmas. -/

theorem sliceBaseShoot_eq : Gen.GrpcStatus.sliceBaseShoot = [
  "if b.Aggregator == nil {",
  "  zap.L().Panic(\"must bind before shoot\")",
  "}",
  "if b.Connect != nil {",
  "  err := b.Connect(b.Ctx)",
  "  if err != nil {",
  "    return",
  "  }",
  "}",
  "req, sample := ammo.Request()",
  "if ammo.IsInvalid() {",
  "  sample.AddTag(EmptyTag)",
  "  sample.SetProtoCode(0)",
  "  b.Aggregator.Report(sample)",
  "  return",
  "}",
  "if b.Config.AutoTag.Enabled && (!b.Config.AutoTag.NoTagOnly || sample.Tags() == \"\") {",
  "  sample.AddTag(autotag(b.Config.AutoTag.URIElements, req.URL))",
  "}",
  "if sample.Tags() == \"\" {",
  "  sample.AddTag(EmptyTag)",
  "}",
  "var err error",
  "defer func() {",
  "  if err != nil {",
  "    sample.SetErr(err)",
  "  }",
  "  b.Aggregator.Report(sample)",
  "  err = errors.WithStack(err)",
  "}()",
  "if b.Config.HTTPTrace.DumpEnabled {",
  "  requestDump, err := httputil.DumpRequest(req, true)",
  "}",
  "res, err = b.Client.Do(req)",
  "if b.Config.HTTPTrace.DumpEnabled && res != nil {",
  "  responseDump, err := httputil.DumpResponse(res, true)",
  "}",
  "if err != nil {",
  "  return",
  "}",
  "sample.SetProtoCode(res.StatusCode)",
  "_, err = io.Copy(ioutil.Discard, res.Body)",
  "if err != nil {",
  "  return",
  "}"] := rfl

theorem srcAutotag_eq : Gen.GrpcStatus.srcAutotag = [
  "path := URL.Path",
  "var ind int",
  "for ; ind < len(path); ind++ { if path[ind] == '/' { if depth == 0 { break } depth-- } }",
  "return path[:ind]"] := rfl

theorem sliceScenarioShoot_eq : Gen.GrpcStatus.sliceScenarioShoot = [
  "if g.base.Aggregator == nil {",
  "  zap.L().Panic(\"must bind before shoot\")",
  "}",
  "if g.base.Connect != nil {",
  "  err := g.base.Connect(g.base.Ctx)",
  "  if err != nil {",
  "    return",
  "  }",
  "}",
  "err := g.shoot(ammo, templateVars)",
  "if err != nil {",
  "  return",
  "}"] := rfl

theorem sliceScenarioShootLoop_eq : Gen.GrpcStatus.sliceScenarioShootLoop = [
  "for _, req := range ammo.Requests {",
  "  tag := ammo.Name + \".\" + req.Name",
  "  sample := netsample.Acquire(tag)",
  "  err := g.shootStep(req, sample, ammo.Name, templateVars, requestVars, idBuilder.String())",
  "  if err != nil {",
  "    g.reportErr(sample, err)",
  "    return err",
  "  }",
  "}",
  "return nil"] := rfl

theorem sliceScenarioShootStep_eq : Gen.GrpcStatus.sliceScenarioShootStep = [
  "if step.Preprocessor != nil {",
  "  preProcVars, err := step.Preprocessor.Process(templateVars)",
  "  if err != nil {",
  "    return fmt.Errorf(\"%s preProcessor %w\", op, err)",
  "  }",
  "}",
  "if err := step.Templater.Apply(&reqParts, templateVars, ammoName, step.Name); err != nil {",
  "  return fmt.Errorf(\"%s templater.Apply %w\", op, err)",
  "}",
  "req, err := g.prepareRequest(reqParts)",
  "if err != nil {",
  "  return fmt.Errorf(\"%s prepareRequest %w\", op, err)",
  "}",
  "resp, err := g.base.Client.Do(req)",
  "if err != nil {",
  "  return fmt.Errorf(\"%s g.Do %w\", op, err)",
  "}",
  "if g.base.Config.AnswLog.Enabled || g.base.DebugLog || len(processors) > 0 {",
  "  respBodyBytes, err = io.ReadAll(resp.Body)",
  "} else {",
  "  _, err = io.Copy(io.Discard, resp.Body)",
  "}",
  "if err != nil {",
  "  return fmt.Errorf(\"%s io.Copy %w\", op, err)",
  "}",
  "for _, postprocessor := range processors {",
  "  vars, err = postprocessor.Process(resp, respBody)",
  "  if err != nil {",
  "    return fmt.Errorf(\"%s postprocessor.Postprocess %w\", op, err)",
  "  }",
  "  _, err = respBody.Seek(0, io.SeekStart)",
  "  if err != nil {",
  "    return fmt.Errorf(\"%s postprocessor.Postprocess %w\", op, err)",
  "  }",
  "}",
  "sample.SetProtoCode(resp.StatusCode)",
  "g.base.Aggregator.Report(sample)",
  "return nil"] := rfl

theorem sliceScenarioReportErr_eq : Gen.GrpcStatus.sliceScenarioReportErr = [
  "if err == nil {",
  "  return",
  "}",
  "sample.AddTag(EmptyTag)",
  "sample.SetProtoCode(0)",
  "sample.SetErr(err)",
  "g.base.Aggregator.Report(sample)"] := rfl

theorem sliceGrpcShoot_eq : Gen.GrpcStatus.sliceGrpcShoot = [
  "g.shoot(customAmmo)"] := rfl

theorem sliceGrpcShootInner_eq : Gen.GrpcStatus.sliceGrpcShootInner = [
  "code := 0",
  "sample := netsample.Acquire(ammo.Tag)",
  "defer func() {",
  "  sample.SetProtoCode(code)",
  "  g.Aggr.Report(sample)",
  "}()",
  "if !ok {",
  "  return",
  "}",
  "payloadJSON, err := json.Marshal(ammo.Payload)",
  "if err != nil {",
  "  return",
  "}",
  "err = message.UnmarshalJSON(payloadJSON)",
  "if err != nil {",
  "  code = 400",
  "  return",
  "}",
  "out, grpcErr := g.Stub.InvokeRpc(ctx, &method, message)",
  "code = ConvertGrpcStatus(grpcErr)"] := rfl

theorem sliceGrpcScenarioShoot_eq : Gen.GrpcStatus.sliceGrpcScenarioShoot = [
  "err := g.shoot(scen, templateVars)",
  "if err != nil {",
  "  return",
  "}"] := rfl

theorem sliceGrpcScenarioShootLoop_eq : Gen.GrpcStatus.sliceGrpcScenarioShootLoop = [
  "for _, call := range ammo.Calls {",
  "  tag := ammo.Name + \".\" + call.Tag",
  "  sample := netsample.Acquire(tag)",
  "  err := g.shootStep(&call, sample, ammo.Name, templateVars, requestVars)",
  "  if err != nil {",
  "    return err",
  "  }",
  "}",
  "return nil"] := rfl

theorem sliceGrpcScenarioShootStep_eq : Gen.GrpcStatus.sliceGrpcScenarioShootStep = [
  "code := 0",
  "defer func() {",
  "  sample.SetProtoCode(code)",
  "  g.gun.Aggr.Report(sample)",
  "}()",
  "for _, preProcessor := range step.Preprocessors {",
  "  pp, err := preProcessor.Process(step, templateVars)",
  "  if err != nil {",
  "    return fmt.Errorf(\"%s preProcessor %w\", op, err)",
  "  }",
  "}",
  "payloadJSON, err := g.templ.Apply(step.Payload, stepMetadata, templateVars, ammoName, step.Name)",
  "if err != nil {",
  "  return fmt.Errorf(\"%s templater.Apply %w\", op, err)",
  "}",
  "if !ok {",
  "  return fmt.Errorf(\"%s invalid step.Call\", op)",
  "}",
  "err = message.UnmarshalJSON(payloadJSON)",
  "if err != nil {",
  "  code = 400",
  "  return fmt.Errorf(\"%s invalid payload. Cant unmarshal gRPC\", op)",
  "}",
  "out, grpcErr := g.gun.Stub.InvokeRpc(ctx, &method, message)",
  "code = grpcgun.ConvertGrpcStatus(grpcErr)",
  "sample.SetProtoCode(code)",
  "for _, postProcessor := range step.Postprocessors {",
  "  pp, err := postProcessor.Process(out, code)",
  "  if err != nil {",
  "    return fmt.Errorf(\"%s postProcessor %w\", op, err)",
  "  }",
  "}",
  "if out != nil {",
  "  err = message.ConvertFrom(out)",
  "  if err != nil {",
  "    return fmt.Errorf(\"%s message.ConvertFrom `%s`; err: %w\", op, out.String(), err)",
  "  }",
  "  b, err := message.MarshalJSON()",
  "  if err != nil {",
  "    return fmt.Errorf(\"%s message.MarshalJSON %w\", op, err)",
  "  }",
  "  err = json.Unmarshal(b, &outMap)",
  "  if err != nil {",
  "    return fmt.Errorf(\"%s json.Unmarshal %w\", op, err)",
  "  }",
  "}",
  "return nil"] := rfl

theorem srcAcquire_eq : Gen.GrpcStatus.srcAcquire = [
  "s := samplePool.Get().(*Sample)",
  "*s = Sample{ timeStamp: time.Now(), tags: tag, }",
  "return s"] := rfl

theorem srcAddTag_eq : Gen.GrpcStatus.srcAddTag = [
  "if s.tags == \"\" { s.tags = tag return }",
  "s.tags += \"|\" + tag"] := rfl

theorem srcSetID_eq : Gen.GrpcStatus.srcSetID = [
  "s.id = id"] := rfl

theorem srcSetProtoCode_eq : Gen.GrpcStatus.srcSetProtoCode = [
  "s.set(keyProtoCode, code)",
  "s.setRTT()"] := rfl

theorem srcSetErr_eq : Gen.GrpcStatus.srcSetErr = [
  "s.err = err",
  "s.set(keyErrno, getErrno(err))",
  "s.setRTT()"] := rfl

theorem srcGunAmmoRequest_eq : Gen.GrpcStatus.srcGunAmmoRequest = [
  "sample := netsample.Acquire(g.tag)",
  "sample.SetID(g.id)",
  "return g.req, sample"] := rfl

theorem srcNewGunAmmo_eq : Gen.GrpcStatus.srcNewGunAmmo = [
  "return GunAmmo{ req: req, id: id, tag: tag, }"] := rfl

theorem sliceHTTPProviderAcquire_eq : Gen.GrpcStatus.sliceHTTPProviderAcquire = [
  "if !ok {",
  "  return nil, false",
  "}",
  "req, err := ammo.BuildRequest()",
  "if err != nil {",
  "  return ammo, false",
  "}",
  "for _, mw := range p.Middlewares {",
  "  err := mw.UpdateRequest(req)",
  "  if err != nil {",
  "    return ammo, false",
  "  }",
  "}",
  "return httpProvider.NewGunAmmo(req, ammo.Tag(), p.NextID()), ok"] := rfl

end Pandora.Bridge.GrpcStatus
