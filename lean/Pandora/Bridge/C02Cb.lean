/-
C02 — bridge for the regenerated facts about `callbackOnFinishSchedule` (`Pandora/Gen/C02Cb.lean`, area `c02cb`,
re-extracted from core/coreutil/schedule.go on every check).

The concurrent model of the wrapper (`Model/C02Cb.lean`) assumes three things about the source:
  * `Next` calls the wrapped `Next` and hands back its results, `Left` the wrapped `Left`;
  * the only other thing a method does is ONE call `x.Do(s.onFinish)`, under the condition `!ok` / `left == 0`
    on those results (`finishing`);
  * `x` is a `sync.Once` — the primitive the model's `OnceSt` stands for (first caller runs the function, callers
    arriving meanwhile block until it has returned, later callers pass).
A renamed local, `if ok { return }` instead of `if !ok { … }`, or reordered declarations leave the rows as they are;
another guard (a flag, a CAS, a mutex of one's own), a second call of `onFinish`, another condition or another
wrapped method change them and break `rows_eq`.
-/
import Pandora.Gen.C02Cb
import Pandora.Model.C02Cb

namespace Pandora.Bridge.C02Cb
open Pandora.Go Pandora.Model.C02 Pandora.Model.C02.Par Pandora.Model.C02.CbW

def expected : List C02CbRow := [
  ⟨"Left", "Left", .eqZero, .guardedCall "sync.Once" "onFinish"⟩,
  ⟨"Next", "Next", .notOk, .guardedCall "sync.Once" "onFinish"⟩
]

/-- the source says what the model assumes -/
theorem rows_eq : Pandora.Gen.C02Cb.cbRows = expected := rfl

/-- the wrapped object is a `core.Schedule` (embedded), so `Start` is the wrapped schedule's own -/
theorem embedded : ("(embedded)", "github.com/yandex/pandora/core.Schedule") ∈ Pandora.Gen.C02Cb.cbFields := by decide

/-- a path condition of a row, on a result of the wrapped call -/
def holdsOn : C02CbCond → Ret → Bool
  | .always, _ => true
  | .notOk, .tok _ ok => !ok
  | .isOk, .tok _ ok => ok
  | .eqZero, .cnt n => n == 0
  | .neZero, .cnt n => n != 0
  | _, _ => false

def opName : Op → String
  | .next => "Next"
  | .left => "Left"

/-- `Next` returns a time and `ok`, `Left` a count -/
def shaped : Op → Ret → Prop
  | .next, .tok _ _ => True
  | .left, .cnt _ => True
  | _, _ => False

/-- what wrapper method `m` does besides calling the wrapped schedule, once the wrapped call has returned `r` -/
def actsOf (rows : List C02CbRow) (m : String) (r : Ret) : List C02CbAct :=
  (rows.filter fun row => row.method == m && holdsOn row.cond r).map (·.act)

/-- which wrapped method the wrapper method `m` calls -/
def innerOf (rows : List C02CbRow) (m : String) : List String :=
  ((rows.filter fun row => row.method == m).map (·.inner)).eraseDups

/-- **the model's wrapper is the source's**: each method calls the wrapped method of the same name, and after a
result `r` it does exactly one thing, `Do(onFinish)` on a `sync.Once`, iff `finishing r` -/
theorem source_is_model (op : Op) (r : Ret) (h : shaped op r) :
    innerOf Pandora.Gen.C02Cb.cbRows (opName op) = [opName op] ∧
    actsOf Pandora.Gen.C02Cb.cbRows (opName op) r =
      if finishing r then [.guardedCall "sync.Once" "onFinish"] else [] := by
  rw [rows_eq]
  cases op <;> cases r <;> simp only [shaped] at h
  · rename_i tx ok
    refine ⟨by decide, ?_⟩
    cases ok <;> simp [actsOf, expected, opName, holdsOn, finishing]
  · rename_i n
    refine ⟨by decide, ?_⟩
    by_cases hn : n = 0
    · subst hn; simp [actsOf, expected, opName, holdsOn, finishing]
    · simp [actsOf, expected, opName, holdsOn, finishing, hn]

end Pandora.Bridge.C02Cb
