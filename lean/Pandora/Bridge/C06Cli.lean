/-
Bridge lemmas for C06 (iii): the structural reading of `cli/cli.go awaitPandoraTermination` regenerated
into `Pandora.Gen.Cli` says that the code is the variant of the shutdown model the theorem is about:
after a signal the `errs` branch waits for `pandora.Wait()` before `log.Fatal`.
On a tree where that branch exits at once `signalErrsBranchWaits` is `false` and `cli_waits` fails.
-/
import Pandora.Gen.Cli
import Pandora.Proofs.C06Cli

namespace Pandora.Bridge.Cli

/-- after SIGINT/SIGTERM the engine's tasks are awaited before the process exits -/
theorem cli_waits : Gen.Cli.signalErrsBranchWaits = true := by decide

/-- both signals cancel the run context; the engine-failed-first branch waits as well -/
theorem cli_cancels : Gen.Cli.signalBranchCancels = true ∧ Gen.Cli.errsFirstBranchWaits = true := by decide

/-- the nested select still has its three cases -/
theorem cli_select_cases : Gen.Cli.signalSelectCases.length = 3 := by decide

end Pandora.Bridge.Cli
