/-
Bridge lemmas for C06 (iii): the structural reading of `cli/cli.go awaitPandoraTermination` regenerated
into `Pandora.Gen.Cli` says that the code is a configuration of the shutdown model the theorems are about:
* after a signal the `errs` branch waits for `pandora.Wait()` before `log.Fatal`;
* SIGINT (2) and SIGTERM (15) are both passed to `signal.Notify` — a signal that is not keeps its default action
  and kills the process without any flush;
* the `switch sig` has a case for each of them and each calls `gracefulShutdown()`.
On a tree where one of these is not so, `codeCfg` is another configuration and `cli_good` fails.
-/
import Pandora.Gen.Cli
import Pandora.Proofs.C06Cli

namespace Pandora.Bridge.Cli
open Pandora.Model.CliShutdown

/-- the signal numbers of this platform (Linux): SIGINT = 2, SIGTERM = 15 -/
def signo : Sig → Nat
  | .int => 2
  | .term => 15

/-- the configuration of the shutdown model that the regenerated facts describe -/
def codeCfg : Cfg where
  waitOnErrs := Gen.Cli.signalErrsBranchWaits
  notified s := Gen.Cli.notifiedSignals.contains (signo s)
  cancels s := Gen.Cli.signalCases.any fun c => c.1 == signo s && c.2.1
  waitOnFail := Gen.Cli.errsFirstBranchWaits

/-- after SIGINT/SIGTERM the engine's tasks are awaited before the process exits -/
theorem cli_waits : Gen.Cli.signalErrsBranchWaits = true := by decide

/-- both signals cancel the run context; the engine-failed-first branch waits as well -/
theorem cli_cancels : Gen.Cli.signalBranchCancels = true ∧ Gen.Cli.errsFirstBranchWaits = true := by decide

/-- the nested select still has its three cases -/
theorem cli_select_cases : Gen.Cli.signalSelectCases.length = 3 := by decide

/-- both signals are notified -/
theorem cli_notified : ∀ s, codeCfg.notified s = true := by
  intro s; cases s <;> decide

/-- the code is a good configuration: waits, notifies both signals, cancels on both -/
theorem cli_good : Pandora.Proofs.C06Cli.Good codeCfg :=
  ⟨cli_waits, cli_notified, by intro s; cases s <;> decide, cli_cancels.2⟩

/-- every interrupt timeout is at least 3 s — the harness treats an exit through the timeout earlier than 2.5 s after
the signal as conclusive, and the assumption "the engine's tasks end within the interrupt timeout" is only
reasonable for timeouts of this order (the values themselves are not claimed: 3 s / 30 s today) -/
theorem cli_timeouts_ge : Gen.Cli.signalCases.all (fun c => decide (3000 ≤ c.2.2)) = true := by decide

end Pandora.Bridge.Cli
