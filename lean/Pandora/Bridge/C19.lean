/-
Bridge C19: the definitions regenerated from /repo's CURRENT source (`Pandora/Gen/RespGuard.lean`, rewritten by
`gen -area respguard` on every check run) agree with the hand-written model `Pandora.Model.C19`, and the inventory
of run-time panic sites of the anchored files is exactly the audited one.  If the source changes any of these, this
file stops compiling and the check reports a broken obligation that names the lemma.
-/
import Pandora.Gen.RespGuard
import Pandora.Model.C19
import Pandora.Proofs.C19Vars

namespace Pandora.Bridge.C19
open Pandora.Model.C10 Pandora.Model.C19

/-! ### `substr`: the index arithmetic of the closure in var_header.go is the model's `substrBounds` -/

theorem substrIdx_eq (start end_ l : Int) : Gen.RespGuard.substrIdx start end_ l = substrBounds start end_ l := by
  unfold Gen.RespGuard.substrIdx substrBounds order clamp adjStart adjEnd
  simp only []
  apply Prod.ext
  · simp only []
    repeat' split
    all_goals omega
  · simp only []
    repeat' split
    all_goals omega

/-- hence the slice expression of the CURRENT source is within bounds for all arguments and all header values -/
theorem substrIdx_in_bounds (start end_ : Int) (len : Nat) :
    0 ≤ (Gen.RespGuard.substrIdx start end_ len).1 ∧
    (Gen.RespGuard.substrIdx start end_ len).1 ≤ (Gen.RespGuard.substrIdx start end_ len).2 ∧
    (Gen.RespGuard.substrIdx start end_ len).2 ≤ (len : Int) := by
  rw [substrIdx_eq]
  unfold substrBounds order clamp adjStart adjEnd
  simp only []
  refine ⟨?_, ?_, ?_⟩
  all_goals (repeat' split) <;> omega

/-- `substr(a)` is `substr(a, 0)` (the model's `Modifier.substr a 0`) -/
theorem substrDefaultEnd_eq : Gen.RespGuard.substrDefaultEnd = 0 := rfl

/-- the model's `Modifier` has one constructor per modifier name the source knows -/
theorem modifierNames_eq : Gen.RespGuard.modifierNames = ["lower", "replace", "substr", "upper"] := rfl

/-- `values[0]` is read only under `len(values) == 1` (model `varXpath`: the unwrapping cannot fail) -/
theorem xpathUnwrapGuards_eq : Gen.RespGuard.xpathUnwrapGuards = ["len(values) == 1"] := rfl

/-! ### assert/response -/

theorem sizeRejects_eq (op : String) (val len : Nat) :
    Gen.RespGuard.sizeRejects op val len = sizeFails (sizeOpOfString op) val len := by
  unfold Gen.RespGuard.sizeRejects sizeOpOfString
  repeat' split
  all_goals simp [sizeFails]
  all_goals omega

/-- the status comparison of both assertions is the model's `statusCode ≠ 0 ∧ statusCode ≠ got` -/
theorem httpStatusRejects_eq (cfg got : Nat) :
    Gen.RespGuard.httpStatusRejects cfg got = decide (cfg ≠ 0 ∧ cfg ≠ got) := by
  simp [Gen.RespGuard.httpStatusRejects, Int.natCast_inj]

theorem grpcStatusRejects_eq (cfg got : Nat) :
    Gen.RespGuard.grpcStatusRejects cfg got = decide (cfg ≠ 0 ∧ cfg ≠ got) := by
  simp [Gen.RespGuard.grpcStatusRejects, Int.natCast_inj]

/-- when the response body is read into `b`: the condition of the `if` around `io.ReadAll(body)`, as a boolean function
of its three atoms, is the model's `bodyReadCond` — body patterns OR a size block, AND a reader. Another spelling or
order of the same condition keeps this lemma; dropping `a.Size != nil` again (the size assertion would compare against
`len(nil) = 0`), dropping the `body != nil` guard or turning `||` into `&&` breaks it. -/
theorem httpBodyReadCond_eq (hasPatterns hasSize bodyPresent : Bool) :
    Gen.RespGuard.httpBodyReadCond hasPatterns hasSize bodyPresent = bodyReadCond hasPatterns hasSize bodyPresent := by
  cases hasPatterns <;> cases hasSize <;> cases bodyPresent <;> rfl

/-- every atom of that condition is one the model knows -/
theorem httpBodyReadUnknownAtoms_eq : Gen.RespGuard.httpBodyReadUnknownAtoms = [] := rfl

/-- hence `assertHttp` measures the real body exactly when the CURRENT source reads it (the guns always pass a reader) -/
theorem readsBody_eq (a : AssertCfg) :
    a.readsBody = Gen.RespGuard.httpBodyReadCond (!a.body.isEmpty) a.size.isSome true := by
  rw [httpBodyReadCond_eq]; rfl

/-- the checks of the http assertion (sorted; `assertHttp` has the same ones; every failing check is an error, none
panics; the body is read under BODYREAD-COND = `httpBodyReadCond`, a read error is an error return; canonical
spelling of that block: locals `v<i>`, error text dropped) -/
theorem httpAssertSteps_eq : Gen.RespGuard.httpAssertSteps = [
    "if BODYREAD-COND { v0, v1 = io.ReadAll(v2) if v1 != nil { return nil, fmt.Errorf(\"…\", v1) } }",
    "if a.Size != nil",
    "if a.StatusCode != 0 && a.StatusCode != resp.StatusCode",
    "range a.Body: if !bytes.Contains(b, []byte(v)) -> return error",
    "range a.Headers: if !(strings.Contains(resp.Header.Get(k), v)) -> return error",
    "return nil, nil"] := rfl

/-- the checks of the gRPC assertion (`assertGrpc`), sorted -/
theorem grpcAssertSteps_eq : Gen.RespGuard.grpcAssertSteps = [
    "if a.StatusCode != 0 && a.StatusCode != code -> return error",
    "if len(a.Payload) == 0 -> return nil, nil",
    "if out == nil -> return error",
    "o := out.String()",
    "range a.Payload: if !strings.Contains(o, v) -> return error",
    "return nil, nil"] := rfl

/-- a nil message (every failed call) is an error BEFORE `out.String()` is called: this check is what keeps a failed
call with a payload assertion from panicking (`assertGrpc`: `outNil ⇒ err`) -/
theorem grpcNilGuardBeforeUse_eq : Gen.RespGuard.grpcNilGuardBeforeUse = true := rfl

/-! ### the extractors and the postprocessor loop, statement by statement

Canonical spelling (gen `respguardCanonStmts`): locals are `v<i>` in the order of first occurrence, error texts are
dropped — renaming a local or rewording a message keeps these lemmas; a changed guard, a dropped error return, another
loop breaks them. -/

/-- `VarHeaderPostprocessor.Process` is the model's `varHeaderWith`: an unparsable mapping is an error return
(`mods = none ⇒ err`), an absent / empty header is skipped (`if v = [] then …`), otherwise the modifier chain is applied
(the only call on response data: `applyChain`, which cannot panic — `C19_no_panic`) -/
theorem varHeaderProcess_eq : Gen.RespGuard.varHeaderProcess = [
    "if len(v0.Mapping) == 0 { return nil, nil }",
    "v1 := make(map[string]any, len(v0.Mapping))",
    "for v2, v3 := range v0.Mapping { v4, v5, v6 := v0.parseValue(v3) if v6 != nil { return nil, fmt.Errorf(\"…\", v3, v6) } v7 := v8.Header.Get(v4) if v7 == \"\" { continue } v1[v2] = v5(v7) }",
    "return v1, nil"] := rfl

/-- `VarJsonpathPostprocessor.Process` is the model's `varJsonpath`: no mapping ⇒ ok; a body that does not decode ⇒
error; a path that does not match ⇒ the error is collected and returned; the result map is created before it is
written -/
theorem varJsonpathProcess_eq : Gen.RespGuard.varJsonpathProcess = [
    "if len(v0.Mapping) == 0 { return nil, nil }",
    "var v1 any",
    "v2 := json.NewDecoder(v3)",
    "v4 := v2.Decode(&v1)",
    "if v4 != nil { return nil, fmt.Errorf(\"…\", v4) }",
    "v5 := map[string]any{}",
    "for v6, v7 := range v0.Mapping { v8, v9 := jsonpath.Get(v7, v1) if v9 != nil { v4 = multierr.Append(v4, fmt.Errorf(\"…\", v7, v9)) continue } v5[v6] = v8 }",
    "return v5, v4"] := rfl

/-- `VarXpathPostprocessor.Process` / `getValuesFromDOM` are the model's `varXpath`: an expression that does not
compile ⇒ error (`invalid`), one that does not evaluate to a node set ⇒ error through the comma-ok assertion
(`scalar`), `values[0]` only under `len(values) == 1` -/
theorem varXpathProcess_eq : Gen.RespGuard.varXpathProcess = [
    "if len(v0.Mapping) == 0 { return nil, nil }",
    "v1, v2 := html.Parse(v3)",
    "if v2 != nil { return nil, v2 }",
    "v4 := make(map[string]any, len(v0.Mapping))",
    "for v5, v6 := range v0.Mapping { v7, v8 := v0.getValuesFromDOM(v1, v6) if v8 != nil { return nil, v8 } if len(v7) == 1 { v4[v5] = v7[0] } else { v4[v5] = v7 } }",
    "return v4, nil"] := rfl

theorem xpathValuesFromDOM_eq : Gen.RespGuard.xpathValuesFromDOM = [
    "v0, v1 := xpath.Compile(v2)",
    "if v1 != nil { return nil, v1 }",
    "v3, v4 := v0.Evaluate(htmlquery.CreateXPathNavigator(v5)).(*xpath.NodeIterator)",
    "if !v4 { return nil, fmt.Errorf(\"…\", v2) }",
    "var v6 []string",
    "for v3.MoveNext() { v7 := v3.Current() v6 = append(v6, v7.Value()) }",
    "return v6, nil"] := rfl

/-- the postprocessor loop of `ScenarioGun.shootStep` is the model's `runPPs`: postprocessors run in order, the first
error ends the step with that error, the variables are copied into a map created by the caller of the loop, the body
reader is rewound for the next postprocessor -/
theorem scenarioPostLoop_eq : Gen.RespGuard.scenarioPostLoop = [
    "for _, v0 := range v1 { v2, v3 = v0.Process(v4, v5) if v3 != nil { return fmt.Errorf(\"…\", op, v3) } for v6, v7 := range v2 { v8[v6] = v7 } _, v3 = v5.Seek(0, io.SeekStart) if v3 != nil { return fmt.Errorf(\"…\", op, v3) } }"] := rfl

/-! ### the http2 client -/

theorem notHTTP2PanicMsg_eq : Gen.RespGuard.notHTTP2PanicMsg = notHTTP2PanicMsg := rfl
theorem nextProtoTLS_eq : Gen.RespGuard.nextProtoTLS = nextProtoTLS := rfl

/-- `checkHTTP2` (model: `Model.C19.checkHTTP2`): nil state, protocol other than `h2`, not mutual -/
theorem checkHTTP2Conds_eq : Gen.RespGuard.checkHTTP2Conds = [
    "if state == nil -> return error",
    "if p := state.NegotiatedProtocol; p != http2.NextProtoTLS -> return error",
    "if !state.NegotiatedProtocolIsMutual -> return error",
    "return nil"] := rfl

/-- `panicOnHTTP1Client.Do` (model: `h2Panics`): on an error it panics only under `DOERR-COND` (`doErrPanics_eq`) and
otherwise returns the error; on a response it panics iff `checkHTTP2(res.TLS)` fails -/
theorem panicOnHTTP1Do_eq : Gen.RespGuard.panicOnHTTP1Do = [
    "res, err := c.Client.Do(req)",
    "if err != nil {var opError *net.OpError; if DOERR-COND {PANIC notHTTP2PanicMsg}; return nil, err}",
    "err = checkHTTP2(res.TLS)",
    "if err != nil {PANIC notHTTP2PanicMsg}",
    "return res, nil"] := rfl

/-- the condition of the error branch, as a boolean function of its three atoms, is the model's `DoErrFacts.panics`:
ALL of "an OpError", "Op is `remote error`" (an alert RECEIVED from the peer), "the text of alert 120". Reordering the
conjuncts keeps this lemma; weakening any of them (`||`, a dropped conjunct) breaks it. -/
theorem doErrPanics_eq (e : DoErrFacts) :
    Gen.RespGuard.doErrPanics e.isOpError e.opRemoteError e.textNoAppProto = e.panics := by
  obtain ⟨a, b, c⟩ := e
  cases a <;> cases b <;> cases c <;> rfl

/-- every atom of that condition is one the model knows -/
theorem doErrUnknownAtoms_eq : Gen.RespGuard.doErrUnknownAtoms = [] := rfl

/-! ### `instance.Run` -/

/-- the deferred `recover()` of `instance.Run` turns a panic into the error the pool fails with (`instanceRun`:
`poolFailed`); the harness recognises a failed pool by this text -/
theorem recoverFormat_eq : Gen.RespGuard.recoverFormat = "shoot panic: %s" := rfl

/-- `gun.Shoot` is called once, lexically inside `Run` and not on another goroutine: the recover covers it -/
theorem shootCallsInRun_eq : Gen.RespGuard.shootCallsInRun = 1 := rfl

/-! ### inventory of run-time panic sites of the anchored files

Every entry is accounted for by the model:
* `must bind before shoot`, `already binded`, `nil aggregator`, transport configuration, `unsupported network`:
  conditions of construction / binding, decided before the first request, independent of the target;
* the two `notHTTP2PanicMsg` sites: the documented fatal condition (`GunShot.documentedFatal`). -/
theorem explicitPanics_eq : Gen.RespGuard.explicitPanics = [
    "components/guns/http/base.go|BaseGun.Bind|log.Panic \"already binded\"",
    "components/guns/http/base.go|BaseGun.Bind|log.Panic \"nil aggregator\"",
    "components/guns/http/base.go|BaseGun.Shoot|zap.L().Panic \"must bind before shoot\"",
    "components/guns/http/client.go|NewHTTP2Transport|zap.L().Panic \"HTTP/2 transport configure fail\"",
    "components/guns/http/client.go|NewTransport|zap.L().Panic \"HTTP transport configure fail\"",
    "components/guns/http/client.go|panicOnHTTP1Client.Do|zap.L().Panic notHTTP2PanicMsg",
    "components/guns/http/client.go|panicOnHTTP1Client.Do|zap.L().Panic notHTTP2PanicMsg",
    "components/guns/http/connect.go|newConnectDialFunc|panic \"unsupported network \" + network",
    "components/guns/http_scenario/gun.go|ScenarioGun.Shoot|zap.L().Panic \"must bind before shoot\""] := rfl

/-- type assertions without comma-ok: the ammo type handed over by the provider of the same plugin and the
transport of the gun's own client; none is applied to response data. In particular `var/xpath` asserts
`(*xpath.NodeIterator)` WITH comma-ok (model `varXpath`: scalar ⇒ error). -/
theorem uncheckedAssertions_eq : Gen.RespGuard.uncheckedAssertions = [
    "components/guns/grpc/core.go|Gun.Shoot|am.(*ammo.Ammo)",
    "components/guns/grpc/scenario/core.go|Gun.Shoot|am.(*Scenario)",
    "components/guns/http/client.go|redirectClient.CloseIdleConnections|c.Transport.(*http.Transport)"] := rfl

/-- index / slice expressions. On response data: only `in[start:end]` (bounds: `substrIdx_in_bounds`) and
`values[0]` (guarded by `len(values) == 1`). The others index configuration text after a length check
(`args[i]`), the non-empty result of `strings.Split` (`vals[0]`, `vals[1:]`, `split[len(split)-1]`), the request
path within `ind ≤ len(path)` (autotag) and a local slice (`fields[:0]`). -/
theorem indexings_eq : Gen.RespGuard.indexings = [
    "components/guns/grpc/core.go|replacePort|split[len(split)-1]",
    "components/guns/grpc/core.go|replacePort|split[len(split)-1]",
    "components/guns/http/base.go|autotag|path[:ind]",
    "components/guns/http/base.go|autotag|path[ind]",
    "components/guns/http_scenario/gun.go|ScenarioGun.verboseLogging|fields[:0]",
    "components/providers/scenario/http/postprocessor/var_header.go|VarHeaderPostprocessor.parseModifier|args[0]",
    "components/providers/scenario/http/postprocessor/var_header.go|VarHeaderPostprocessor.parseModifier|args[1]",
    "components/providers/scenario/http/postprocessor/var_header.go|VarHeaderPostprocessor.parseValue|vals[0]",
    "components/providers/scenario/http/postprocessor/var_header.go|VarHeaderPostprocessor.parseValue|vals[0]",
    "components/providers/scenario/http/postprocessor/var_header.go|VarHeaderPostprocessor.parseValue|vals[1:]",
    "components/providers/scenario/http/postprocessor/var_header.go|VarHeaderPostprocessor.substr|args[0]",
    "components/providers/scenario/http/postprocessor/var_header.go|VarHeaderPostprocessor.substr|args[0]",
    "components/providers/scenario/http/postprocessor/var_header.go|VarHeaderPostprocessor.substr|args[1]",
    "components/providers/scenario/http/postprocessor/var_header.go|VarHeaderPostprocessor.substr|args[1]",
    "components/providers/scenario/http/postprocessor/var_header.go|VarHeaderPostprocessor.substr|in[start:end]",
    "components/providers/scenario/http/postprocessor/var_xpath.go|VarXpathPostprocessor.Process|values[0]"] := rfl

/-- writes to maps not created in the same function: `requestVars` is created by the caller (`shoot`) for every
shot, `previous` is the caller's fresh map: no nil-map write -/
theorem mapWritesWithoutMake_eq : Gen.RespGuard.mapWritesWithoutMake = [
    "components/guns/grpc/scenario/core.go|Gun.shootStep|requestVars[step.Name]",
    "components/guns/grpc/scenario/core.go|mergeMaps|previous[k]",
    "components/guns/http_scenario/gun.go|ScenarioGun.shootStep|requestVars[step.Name]"] := rfl

/-! ### gRPC status table: the switch of `ConvertGrpcStatus` is the model's `grpcToHttp` -/

theorem grpcToHttp_eq (c : Nat) : Gen.RespGuard.grpcToHttp c = grpcToHttp c := by
  unfold Gen.RespGuard.grpcToHttp grpcToHttp
  repeat' split
  all_goals first | rfl | omega

/-! ### round 3: the code that reads response-derived variables (lib/mp, the scenario preprocessors, template functions) -/

/-- `calcIndex` of the CURRENT source (regenerated statement by statement into the Checked monad) is the model's
`calcIndex` on the classification of the index text, for every text, every result of `strconv.Atoi`, every length and
everything the iterator may hand out. Moving the emptiness guard behind the keyword branches, dropping it, another
comparison or another modulo breaks this lemma; renaming locals does not. -/
theorem calcIndex_eq (indexStr : String) (atoi : Option Int) (length : Int) (nextV randRaw : Nat) :
    Gen.RespGuard.calcIndex indexStr atoi length nextV randRaw =
      calcIndex (indexKindOf indexStr atoi) length nextV randRaw := by
  unfold Gen.RespGuard.calcIndex indexKindOf
  by_cases h1 : indexStr = "next" <;> by_cases h2 : indexStr = "rand" <;> by_cases h3 : indexStr = "last" <;>
    cases atoi <;> simp_all [calcIndex, goRem, intn, Checked.bind] <;>
    (repeat' split) <;> simp_all <;> first | omega | (split <;> simp_all <;> omega) | skip

/-- hence the index the CURRENT source computes never panics and lies inside the slice -/
theorem calcIndex_in_bounds (indexStr : String) (atoi : Option Int) (length : Int) (nextV randRaw : Nat) :
    ∃ r, Gen.RespGuard.calcIndex indexStr atoi length nextV randRaw = .ok r ∧ ∀ i, r = some i → 0 ≤ i ∧ i < length := by
  rw [calcIndex_eq]
  exact Proofs.C19.calcIndex_ok _ _ _ _

/-- the bound of `randString` in the CURRENT source is the model's, and `make([]rune, n)` accepts every length below it -/
theorem maxRandStringLength_eq : Gen.RespGuard.maxRandStringLength = maxRandStringLength := rfl

theorem maxRandStringLength_ok : Gen.RespGuard.maxRandStringLength ≤ maxRuneSliceLen := by decide

/-- `extractFromSlice`: the slice types are checked first (any other value is an error: model `.list false`, scalars,
maps), `valueLen` (`v1`) is the length of THE SAME value (`v4`), `calcIndex` is called with it, its error is returned … -/
theorem mpExtractFromSlice_eq : Gen.RespGuard.mpExtractFromSlice = [
    "v0 := []reflect.Type{}",
    "var v1 int",
    "var v2 bool",
    "for _, v3 := range v0 { if reflect.TypeOf(v4) == v3 { v1 = reflect.ValueOf(v4).Len() v2 = true break } }",
    "if !v2 { return nil, fmt.Errorf(\"…\", v4, v4) }",
    "v5, v6 := calcIndex(v7, v8, v1, v9)",
    "if v6 != nil { return nil, fmt.Errorf(\"…\", v4, v6) }",
    "switch vsw := v4.(type) { }",
    "return nil, fmt.Errorf(\"…\", v4, v4)"] := rfl

/-- … the accepted slice types (sorted: their order does not matter; model `Val.list true`) … -/
theorem mpSliceTypes_eq : Gen.RespGuard.mpSliceTypes = [
    "reflect.TypeOf([]any{})",
    "reflect.TypeOf([]float64{})",
    "reflect.TypeOf([]int64{})",
    "reflect.TypeOf([]int{})",
    "reflect.TypeOf([]map[string]any{})",
    "reflect.TypeOf([]map[string]string{})",
    "reflect.TypeOf([]string{})"] := rfl

/-- … and every clause of the type switch on that value (`vsw`) reads exactly `vsw[v5]`, `v5` being the index `calcIndex`
returned for the length of that very slice (model `extractFromSlice`: `goIndex xs i` with `i` from
`calcIndex k xs.length`); one clause per accepted type (sorted: reordering them is harmless) -/
theorem mpSliceCases_eq : Gen.RespGuard.mpSliceCases = [
    "case []any: return vsw[v5], nil",
    "case []float64: return vsw[v5], nil",
    "case []int64: return vsw[v5], nil",
    "case []int: return vsw[v5], nil",
    "case []map[string]any: return vsw[v5], nil",
    "case []map[string]string: w0 := make(map[string]any, len(vsw[v5])) for w1, w2 := range vsw[v5] { w0[w1] = w2 } return w0, nil",
    "case []string: return vsw[v5], nil"] := rfl

/-- `GetMapValue` (model `getMapValue`): a missing key is an error, an indexed segment goes through
`extractFromSlice`, both type assertions are comma-ok, a value that is not a map ends the path (error unless last) -/
theorem mpGetMapValue_eq : Gen.RespGuard.mpGetMapValue = [
    "if v0 == nil { return nil, nil }",
    "var v1 strings.Builder",
    "v2 := strings.Split(strings.TrimPrefix(v3, \".\"), \".\")",
    "for v4, v5 := range v2 { v5 = strings.TrimSpace(v5) v1.WriteByte('.') v1.WriteString(v5) if strings.Contains(v5, \"[\") && strings.HasSuffix(v5, \"]\") { v6 := strings.Index(v5, \"[\") v7 := strings.ToLower(strings.TrimSpace(v5[v6+1 : len(v5)-1])) v5 = v5[:v6] v8, v9 := v0[v5] if !v9 { return nil, &ErrSegmentNotFound{path: v3, segment: v5} } v10, v11 := extractFromSlice(v8, v7, v1.String(), v12) if v11 != nil { return nil, fmt.Errorf(\"…\", v5, v3, v11) } v0, v9 = v10.(map[string]any) if !v9 { if v4 != len(v2)-1 { return nil, fmt.Errorf(\"…\", v5, v3) } return v10, nil } } else { v13, v14 := v0[v5] if !v14 { return nil, &ErrSegmentNotFound{path: v3, segment: v5} } v0, v14 = v13.(map[string]any) if !v14 { if v4 != len(v2)-1 { return nil, fmt.Errorf(\"…\", v5, v3) } return v13, nil } } }",
    "return v0, nil"] := rfl

/-- `(*NextIterator).Rand` is `rand.Intn(length)` of a private generator (model `intn`: panics for `length ≤ 0`) -/
theorem mpIterRand_eq : Gen.RespGuard.mpIterRand = [
    "v0.mx.Lock()",
    "defer v0.mx.Unlock()",
    "return v0.rnd.Intn(v1)"] := rfl

/-- `(*NextIterator).Next`: 0 for a new segment, then a counter (`atomic.Uint64`; model: `nextV : Nat`) -/
theorem mpIterNext_eq : Gen.RespGuard.mpIterNext = [
    "v0.mx.Lock()",
    "defer v0.mx.Unlock()",
    "v1, v2 := v0.gs[v3]",
    "if !v2 { v0.gs[v3] = &atomic.Uint64{} return 0 }",
    "v4 := v1.Add(1)",
    "return int(v4)"] := rfl

/-- `(*Preprocessor).Process` (http): every mapping is a template function call or a path; the first error ends it
(model `preprocess`) -/
theorem preprocessHTTP_eq : Gen.RespGuard.preprocessHTTP = [
    "if v0 == nil { return nil, nil }",
    "if v1 == nil { return nil, errors.New(\"…\") }",
    "v2 := make(map[string]any, len(v0.Mapping))",
    "var ( v3 any v4 error )",
    "for v5, v6 := range v0.Mapping { v7, v8 := templater.ParseFunc(v6) if v7 != nil { v3, v4 = templater.ExecTemplateFuncWithVariables(v7, v8, v1, v0.iterator) } else { v3, v4 = mp.GetMapValue(v1, v6, v0.iterator) } if v4 != nil { return nil, fmt.Errorf(\"…\", v5, v4) } v2[v5] = v3 }",
    "return v2, nil"] := rfl

/-- `(*PreparePreprocessor).Process` (grpc): the same loop -/
theorem preprocessGRPC_eq : Gen.RespGuard.preprocessGRPC = [
    "if v0 == nil { return nil, errors.New(\"…\") }",
    "v1 := make(map[string]any, len(v2.Mapping))",
    "var ( v3 any v4 error )",
    "for v5, v6 := range v2.Mapping { v7, v8 := templater.ParseFunc(v6) if v7 != nil { v3, v4 = templater.ExecTemplateFuncWithVariables(v7, v8, v0, v2.iterator) } else { v3, v4 = mp.GetMapValue(v0, v6, v2.iterator) } if v4 != nil { return nil, fmt.Errorf(\"…\", v5, v4) } v1[v5] = v3 }",
    "return v1, nil"] := rfl

/-- `ExecTemplateFuncWithVariables`: every argument is looked up as a path, an ERROR falls back to the text
(model `resolveArgs`), then the function is called (`callTplFn`) -/
theorem execTemplateFunc_eq : Gen.RespGuard.execTemplateFunc = [
    "v0 := make([]any, len(v1))",
    "for v2 := range v1 { v3, v4 := mp.GetMapValue(v5, v1[v2], v6) if v4 == nil { v0[v2] = v3 } else { v0[v2] = v1[v2] } }",
    "switch exec := v7.(type) { case func() (string, error): return v8() case func(v9 ...any) (string, error): return v10(v0...) }",
    "return \"\", ErrUnsupportedFunctionType"] := rfl

/-- `RandString(args...)` (model `callRandString`) -/
theorem tplRandStringArgs_eq : Gen.RespGuard.tplRandStringArgs = [
    "switch len(v0) { case 0: return randString(0, \"\") case 1: return randString(v0[0], \"\") case 2: return randString(v0[0], str.FormatString(v0[1])) default: return \"\", fmt.Errorf(\"…\", len(v0)) }"] := rfl

/-- `randString`: unparsable ⇒ error, 0 ⇒ 1, negative ⇒ error, ABOVE `maxRandStringLength` ⇒ error, and only then
`str.RandStringRunes` (model `randString (some maxRandStringLength)`) -/
theorem tplRandString_eq : Gen.RespGuard.tplRandString = [
    "v0, v1 := numbers.ParseInt(v2)",
    "if v1 != nil { return \"\", v1 }",
    "if v0 == 0 { v0 = 1 }",
    "if v0 < 0 { return \"\", fmt.Errorf(\"…\", v0) }",
    "if v0 > maxRandStringLength { return \"\", fmt.Errorf(\"…\", maxRandStringLength, v0) }",
    "return str.RandStringRunes(v0, v3), nil"] := rfl

/-- `RandInt(args...)` (model `callRandInt`) -/
theorem tplRandIntArgs_eq : Gen.RespGuard.tplRandIntArgs = [
    "switch len(v0) { case 0: return randInt(0, 0) case 1: v1, v2 := numbers.ParseInt(v0[0]) if v2 != nil { return \"\", v2 } return randInt(v1, 0) case 2: v3, v4 := numbers.ParseInt(v0[0]) if v4 != nil { return \"\", v4 } v5, v4 := numbers.ParseInt(v0[1]) if v4 != nil { return \"\", v4 } return randInt(v3, v5) default: return \"\", fmt.Errorf(\"…\", len(v0)) }"] := rfl

/-- `randInt(f, t)`: swap, the two special cases, the guard `t-f <= 0` in front of `rand.Int63n(t - f)`
(model `randIntRange`) -/
theorem tplRandIntRange_eq : Gen.RespGuard.tplRandIntRange = [
    "if v0 < v1 { v0, v1 = v1, v0 }",
    "if v1 == 0 && v0 == 0 { v0 = defaultMaxRandValue }",
    "if v0 == v1 { v0 = v1 + defaultMaxRandValue }",
    "if v0-v1 <= 0 { return \"\", fmt.Errorf(\"…\", v1, v0) }",
    "v2 := rand.Int63n(v0 - v1)",
    "v2 += v1",
    "return strconv.FormatInt(v2, 10), nil"] := rfl

/-- `str.RandStringRunes`: `make([]rune, n)` with the caller's `n` (model `goMakeRunes`), letters never empty -/
theorem strRandStringRunes_eq : Gen.RespGuard.strRandStringRunes = [
    "if len(v0) == 0 { v0 = letters }",
    "if v1 < 0 { v1 = 0 }",
    "var v2 = []rune(v0)",
    "v3 := make([]rune, v1)",
    "randSourceMx.Lock()",
    "for v4 := range v3 { v3[v4] = v2[randSource.Intn(len(v2))] }",
    "randSourceMx.Unlock()",
    "return string(v3)"] := rfl

/-- no explicit panic in lib/mp, the preprocessors, the template functions, lib/str/string.go -/
theorem varsExplicitPanics_eq : Gen.RespGuard.varsExplicitPanics = [] := rfl

/-- no type assertion without comma-ok there -/
theorem varsUncheckedAssertions_eq : Gen.RespGuard.varsUncheckedAssertions = [] := rfl

/-- index / slice expressions there (local variables printed as `_`: WHICH variable indexes what is pinned by the
canonical statements above). On response-derived data: the `v[index]` of `extractFromSlice` (bounds:
`calcIndex_in_bounds`). The others index the argument lists of template functions after `switch len(args)` / within
`range args`, configuration text (`segment[...]`: the first `[` stands before the final `]`; `ParseStringFunc`, `parseStr`)
and `b[i]` / `letterRunes[Intn(len)]` within `range b` / a non-empty alphabet. -/
theorem varsIndexings_eq : Gen.RespGuard.varsIndexings = [
    "components/providers/scenario/templater/exec.go|ExecTemplateFuncWithVariables|_[_]",
    "components/providers/scenario/templater/exec.go|ExecTemplateFuncWithVariables|_[_]",
    "components/providers/scenario/templater/exec.go|ExecTemplateFuncWithVariables|_[_]",
    "components/providers/scenario/templater/exec.go|ExecTemplateFuncWithVariables|_[_]",
    "components/providers/scenario/templater/exec.go|ExecTemplateFunc|_[_]",
    "components/providers/scenario/templater/exec.go|ExecTemplateFunc|_[_]",
    "components/providers/scenario/templater/func.go|RandInt|_[0]",
    "components/providers/scenario/templater/func.go|RandInt|_[0]",
    "components/providers/scenario/templater/func.go|RandInt|_[1]",
    "components/providers/scenario/templater/func.go|RandString|_[0]",
    "components/providers/scenario/templater/func.go|RandString|_[0]",
    "components/providers/scenario/templater/func.go|RandString|_[1]",
    "components/providers/scenario/templater/func.go|parseStr|_[0]",
    "components/providers/scenario/templater/func.go|parseStr|_[0]",
    "components/providers/scenario/templater/func.go|parseStr|_[1:]",
    "components/providers/scenario/templater/func.go|parseStr|_[_]",
    "components/providers/scenario/templater/func.go|parseStr|_[_]",
    "lib/mp/map.go|GetMapValue|_[:_]",
    "lib/mp/map.go|GetMapValue|_[_+1 : len(_)-1]",
    "lib/mp/map.go|extractFromSlice|_[_]",
    "lib/mp/map.go|extractFromSlice|_[_]",
    "lib/mp/map.go|extractFromSlice|_[_]",
    "lib/mp/map.go|extractFromSlice|_[_]",
    "lib/mp/map.go|extractFromSlice|_[_]",
    "lib/mp/map.go|extractFromSlice|_[_]",
    "lib/mp/map.go|extractFromSlice|_[_]",
    "lib/mp/map.go|extractFromSlice|_[_]",
    "lib/str/string.go|ParseStringFunc|_[:_]",
    "lib/str/string.go|ParseStringFunc|_[:_]",
    "lib/str/string.go|ParseStringFunc|_[_+1:]",
    "lib/str/string.go|ParseStringFunc|_[_]",
    "lib/str/string.go|ParseStringFunc|_[_]",
    "lib/str/string.go|RandStringRunes|_[_]",
    "lib/str/string.go|RandStringRunes|_[randSource.Intn(len(_))]"] := rfl

/-- `n.gs` is created by `NewNextIterator` -/
theorem varsMapWritesWithoutMake_eq : Gen.RespGuard.varsMapWritesWithoutMake = [
    "lib/mp/iterator.go|NextIterator.Next|_.gs[_]"] := rfl

/-- the scenario gun buffers the response body whenever the step has a postprocessor (and for answlog / debug logging):
the reader every postprocessor is handed, and which the loop rewinds after each of them, is never nil (model `runPPs`:
postprocessors read the body of the response). A condition that leaves it nil for some list of postprocessors breaks this
lemma; another spelling of the same condition does not. -/
theorem scenarioBodyBuffered_eq (answlog debug hasPostprocessors : Bool) :
    Gen.RespGuard.scenarioBodyBuffered answlog debug hasPostprocessors = (answlog || debug || hasPostprocessors) := by
  cases answlog <;> cases debug <;> cases hasPostprocessors <;> rfl

theorem scenarioBodyBufferedUnknownAtoms_eq : Gen.RespGuard.scenarioBodyBufferedUnknownAtoms = [] := rfl

/-- `ScenarioGun.prepareRequest`: the error of `http.NewRequest` is returned before the request is touched (a URL rendered
from a response-derived variable may be unparsable: the step fails, `StepCfg.prepFails`). Stated as order-free FACTS
about the current source (round 6; the literal statement list broke on the legitimate repair 789fa67, which changed what is
done with the headers of a request that exists): what happens to an existing request is free, using it before the error
check or returning it with an error is not (mutant r4 of round 3 sets `errorCheckedBeforeAnyUse=false`). -/
theorem scenarioPrepareFacts_eq : Gen.RespGuard.scenarioPrepareFacts = [
    "newRequestCalls=1",
    "newRequestAtTopLevel=true",
    "errorCheckedBeforeAnyUse=true",
    "requestUntouchedOnError=true",
    "returnsNilRequestAndAnError=true"] := rfl

/-- the preprocessor block of `shootStep` (model `scenarioStepsV`): the preprocessor's error is the step's error -/
theorem scenarioPreBlock_eq : Gen.RespGuard.scenarioPreBlock = [
    "if v0.Preprocessor != nil { v1, v2 := v0.Preprocessor.Process(v3) if v2 != nil { return fmt.Errorf(\"…\", op, v2) } v4[\"preprocessor\"] = v1 if v5.base.DebugLog { v5.base.GunDeps.Log.Debug(\"Preprocessor variables\", zap.Any(fmt.Sprintf(\".request.%s.preprocessor\", v0.Name), v1)) } }"] := rfl

end Pandora.Bridge.C19
