/-
C13 — bridge between the definitions regenerated from the current source (`Pandora.Gen.C13Src`, written by
/verif/gen area `c13src` on every check run) and the models the property theorems are about.

Each lemma holds for ALL arguments: a changed comparison, constant, operator, or order of two dependent tests in
`mp.calcIndex`, `templater.randInt`, `readSized`, the decoders' `Scan`, `MultiPassReader.Read` or the progress
function of `DecodeProvider.Run` makes a lemma below fail to check.
-/
import Pandora.Gen.C13Src
import Pandora.Model.C13Funcs
import Pandora.Model.C13Multi

set_option linter.unusedSimpArgs false

namespace Pandora.Bridge.C13
open Pandora.Model.C13

/-- error classes are names given by the model; the regenerated code only says "an error" -/
def eraseErr {α : Type} : Res α → Res α
  | .err _ => .err "e"
  | r => r

theorem eraseErr_ok {α : Type} (r : Res α) (a : α) (h : r = .ok a) : eraseErr r = .ok a := by subst h; rfl
theorem eraseErr_err {α : Type} (r : Res α) (c : String) (h : r = .err c) : eraseErr r = .err "e" := by subst h; rfl
theorem eraseErr_returns {α : Type} (r : Res α) : (eraseErr r).returns = r.returns := by cases r <;> rfl

/-! ### `mp.calcIndex` -/

theorem calcIndex_bridge (indexStr : Bytes) (length next : Int) (rnd : Nat) :
    Gen.C13Src.calcIndex indexStr ((atoi indexStr).getD 0) (atoi indexStr).isNone length next rnd =
      eraseErr (calcIndex true indexStr length next rnd) := by
  unfold Gen.C13Src.calcIndex calcIndex isKw kwNext kwRand kwLast
  by_cases h1 : indexStr = [110, 101, 120, 116]
  · subst h1
    by_cases hl : length ≤ 0
    · simp (disch := omega) [eraseErr, hl, if_pos, if_neg]
    · by_cases hn : next ≥ length
      · have : length ≠ 0 := by omega
        simp (disch := omega) [eraseErr, hl, hn, tmodC, this, Res.bind, if_pos, if_neg]
      · simp (disch := omega) [eraseErr, hl, hn, Res.bind, if_pos, if_neg]
  · by_cases h2 : indexStr = [114, 97, 110, 100]
    · subst h2
      by_cases hl : length ≤ 0
      · simp (disch := omega) [eraseErr, hl, if_pos, if_neg]
      · simp (disch := omega) [eraseErr, hl, intnC, if_pos, if_neg]
    · by_cases h3 : indexStr = [108, 97, 115, 116]
      · subst h3
        by_cases hl : length ≤ 0
        · simp (disch := omega) [eraseErr, hl, if_pos, if_neg]
        · simp (disch := omega) [eraseErr, hl, if_pos, if_neg]
      · cases ha : atoi indexStr with
        | none => simp [eraseErr, h1, h2, h3]
        | some v =>
          by_cases hl : length ≤ 0
          · simp (disch := omega) [eraseErr, h1, h2, h3, hl, if_pos, if_neg]
          · have hne : length ≠ 0 := by omega
            by_cases hr : 0 ≤ v ∧ v < length
            · simp (disch := omega) [eraseErr, h1, h2, h3, hl, hr, if_pos, if_neg]
            · by_cases hm : Int.tmod v length < 0
              · simp (disch := omega) [eraseErr, h1, h2, h3, hl, hr, hm, tmodC, hne, Res.bind, if_pos, if_neg]
              · simp (disch := omega) [eraseErr, h1, h2, h3, hl, hr, hm, tmodC, hne, Res.bind, if_pos, if_neg]

/-! ### `templater.randInt` -/

theorem randInt_bridge (f t : Int) (rnd : Nat) :
    Gen.C13Src.randInt f t rnd = eraseErr (randInt true f t rnd) := by
  unfold Gen.C13Src.randInt randInt randIntBounds
  by_cases h : t < f
  · simp only [h, if_true]
    by_cases h0 : t = 0 ∧ f = 0
    · obtain ⟨rfl, rfl⟩ := h0
      omega
    · by_cases he : f = t
      · omega
      · by_cases hz : t = 0 ∧ f = 0
        · exact absurd hz h0
        · simp only [hz, if_false, he, Bool.true_and, decide_eq_true_eq]
          by_cases hd : wrap64 (f - t) ≤ 0
          · simp (disch := omega) [hd, eraseErr, if_pos, if_neg]
          · simp (disch := omega) [hd, eraseErr, intnC, Res.bind, if_pos, if_neg]
  · simp only [h, if_false]
    by_cases h0 : f = 0 ∧ t = 0
    · obtain ⟨rfl, rfl⟩ := h0
      simp only [and_self, if_true, Bool.true_and, decide_eq_true_eq]
      have h10 : ¬ ((10 : Int) = 0) := by omega
      simp only [h10, if_false]
      have hw : wrap64 10 = 10 := by unfold wrap64; omega
      simp (disch := omega) [eraseErr, intnC, Res.bind, hw, if_pos, if_neg]
    · simp only [h0, if_false, Bool.true_and, decide_eq_true_eq]
      by_cases he : t = f
      · subst he
        simp only [if_true]
        by_cases hd : wrap64 (wrap64 (t + 10) - t) ≤ 0
        · simp (disch := omega) [hd, eraseErr, if_pos, if_neg]
        · simp (disch := omega) [hd, eraseErr, intnC, Res.bind, if_pos, if_neg]
      · simp only [he, if_false]
        by_cases hd : wrap64 (t - f) ≤ 0
        · simp (disch := omega) [hd, eraseErr, if_pos, if_neg]
        · simp (disch := omega) [hd, eraseErr, intnC, Res.bind, if_pos, if_neg]

/-! ### `readSized` -/

/-- what `readSized` refuses before it allocates anything is what the model's reader answers with the error `size` -/
theorem readSized_bridge (size : Int) (rest : Bytes) :
    Gen.C13Src.readSizedTestFirst = true ∧
    (Gen.C13Src.readSizedRefuses size ↔ readBody true size rest = .err "size") := by
  refine ⟨rfl, ?_⟩
  unfold Gen.C13Src.readSizedRefuses readBody
  by_cases h : size < 0
  · simp (disch := omega) [h, if_pos, if_neg]
  · by_cases h2 : size > rest.length
    · simp (disch := omega) [h, h2, if_pos, if_neg]
    · simp (disch := omega) [h, h2, if_pos, if_neg]

/-- the reader never allocates more than one chunk ahead of the data it has read, and a chunk fits the memory the model assumes -/
theorem readChunkSize_bridge : 0 < Gen.C13Src.readChunkSize ∧ Gen.C13Src.readChunkSize ≤ memCap := by
  unfold Gen.C13Src.readChunkSize memCap
  omega

/-! ### the end of a pass in the decoders' `Scan` -/

def passEndOf (limitTest noAmmoTest : Bool) : PassEnd :=
  if limitTest then .stop .ok else if noAmmoTest then .stop (.err "noammo") else .again

theorem uripostPassEnd_bridge (passes passNum ammoNum : Nat) :
    Gen.C13Src.uripostPassEndSeq = ["passNum++", "ErrPassLimit", "ErrNoAmmo", "Seek"] ∧
    httpPassEnd passes passNum ammoNum =
      passEndOf (decide (Gen.C13Src.uripostPassLimit passes passNum)) (decide (Gen.C13Src.uripostNoAmmo ammoNum)) := by
  refine ⟨rfl, ?_⟩
  unfold httpPassEnd passEndOf Gen.C13Src.uripostPassLimit Gen.C13Src.uripostNoAmmo
  by_cases h : passes ≠ 0 ∧ passNum ≥ passes
  · have : ((passes : Int) ≠ 0 ∧ (passNum : Int) ≥ passes) := by omega
    simp (disch := omega) [h, this, if_pos, if_neg]
  · have h' : ¬ ((passes : Int) ≠ 0 ∧ (passNum : Int) ≥ passes) := by omega
    by_cases ha : ammoNum = 0
    · simp (disch := omega) [h, ha, if_pos, if_neg]
    · simp (disch := omega) [h, ha, if_pos, if_neg]

theorem rawPassEnd_bridge (passes passNum ammoNum : Nat) :
    Gen.C13Src.rawPassEndSeq = ["passNum++", "ErrPassLimit", "ErrNoAmmo", "Seek"] ∧
    httpPassEnd passes passNum ammoNum =
      passEndOf (decide (Gen.C13Src.rawPassLimit passes passNum)) (decide (Gen.C13Src.rawNoAmmo ammoNum)) := by
  refine ⟨rfl, ?_⟩
  unfold httpPassEnd passEndOf Gen.C13Src.rawPassLimit Gen.C13Src.rawNoAmmo
  by_cases h : passes ≠ 0 ∧ passNum ≥ passes
  · have : ((passes : Int) ≠ 0 ∧ (passNum : Int) ≥ passes) := by omega
    simp (disch := omega) [h, this, if_pos, if_neg]
  · have h' : ¬ ((passes : Int) ≠ 0 ∧ (passNum : Int) ≥ passes) := by omega
    by_cases ha : ammoNum = 0
    · simp (disch := omega) [h, ha, if_pos, if_neg]
    · simp (disch := omega) [h, ha, if_pos, if_neg]

theorem uriPassEnd_bridge (passes passNum ammoNum : Nat) :
    Gen.C13Src.uriPassEndSeq = ["passNum++", "ErrPassLimit", "ErrNoAmmo", "Seek"] ∧
    httpPassEnd passes passNum ammoNum =
      passEndOf (decide (Gen.C13Src.uriPassLimit passes passNum)) (decide (Gen.C13Src.uriNoAmmo ammoNum)) := by
  refine ⟨rfl, ?_⟩
  unfold httpPassEnd passEndOf Gen.C13Src.uriPassLimit Gen.C13Src.uriNoAmmo
  by_cases h : passes ≠ 0 ∧ passNum ≥ passes
  · have : ((passes : Int) ≠ 0 ∧ (passNum : Int) ≥ passes) := by omega
    simp (disch := omega) [h, this, if_pos, if_neg]
  · have h' : ¬ ((passes : Int) ≠ 0 ∧ (passNum : Int) ≥ passes) := by omega
    by_cases ha : ammoNum = 0
    · simp (disch := omega) [h, ha, if_pos, if_neg]
    · simp (disch := omega) [h, ha, if_pos, if_neg]

/-- the jsonline decoder asks the same two questions; it tests the pass limit at the top of its loop (after the seek),
and "no ammo" before it counts the pass - either way a file without entries is never read twice -/
theorem jsonlinePassEnd_bridge (passes passNum ammoNum : Int) :
    Gen.C13Src.jsonlinePassEndSeq = ["ErrPassLimit", "ErrNoAmmo", "passNum++", "Seek"] ∧
    (Gen.C13Src.jsonlinePassLimit passes passNum ↔ Gen.C13Src.uripostPassLimit passes passNum) ∧
    (Gen.C13Src.jsonlineNoAmmo ammoNum ↔ ammoNum = 0) :=
  ⟨rfl, Iff.rfl, Iff.rfl⟩

/-! ### `MultiPassReader.Read` at the end of the source -/

/-- the end of the source in the model of the repaired reader is the regenerated EOF block: `fruitless` from the bytes of
the pass and the provider's progress function, the early return, the seek test, in this order -/
theorem mprRead_bridge (data : Bytes) (passes : Nat) (s : MPR) (hend : data[s.pos]? = none) :
    Gen.C13Src.mprEofSeq = ["passesCount++", "fruitless", "passBytes=0", "return", "Seek"] ∧
    mprReadByte true data passes s =
      (let pc := s.passesCount + 1
       let progress := decide (Gen.C13Src.dpProgress s.ammoNum s.passStart)
       let fruitless := decide (Gen.C13Src.mprFruitless s.passBytes true progress)
       let s' : MPR := { s with passesCount := pc, passBytes := 0, passStart := if s.passBytes ≠ 0 then s.ammoNum else s.passStart }
       if Gen.C13Src.mprReturns fruitless then (.eof, s')
       else if Gen.C13Src.mprSeeks passes pc then (.again, { s' with pos := 0 })
       else (.eof, s')) := by
  refine ⟨rfl, ?_⟩
  unfold mprReadByte Gen.C13Src.mprReturns Gen.C13Src.mprSeeks Gen.C13Src.mprFruitless Gen.C13Src.dpProgress
  rw [hend]
  simp only [if_true]
  by_cases hb : s.passBytes = 0
  · simp (disch := omega) [hb, if_pos, if_neg]
  · have hb' : ¬ ((s.passBytes : Int) = 0) := by omega
    by_cases hp : s.ammoNum > s.passStart
    · have hp' : ((s.ammoNum : Int) > s.passStart) := by omega
      have hnf : ¬ (s.passBytes = 0 ∨ ¬ s.ammoNum > s.passStart) := by
        intro h; rcases h with h | h
        · exact hb h
        · exact h hp
      simp only [hnf, if_false]
      by_cases hs : passes = 0 ∨ s.passesCount + 1 < passes
      · have hs' : ((passes : Int) ≤ 0 ∨ ((s.passesCount + 1 : Nat) : Int) < passes) := by omega
        simp (disch := omega) [hb, hb', hp, hp', hs, hs', if_pos, if_neg]
        all_goals omega
      · have hs' : ¬ ((passes : Int) ≤ 0 ∨ ((s.passesCount + 1 : Nat) : Int) < passes) := by omega
        simp (disch := omega) [hb, hb', hp, hp', hs, hs', if_pos, if_neg]
        all_goals omega
    · have hp' : ¬ ((s.ammoNum : Int) > s.passStart) := by omega
      have hf : (s.passBytes = 0 ∨ ¬ s.ammoNum > s.passStart) := .inr hp
      simp (disch := omega) [hb, hb', hp, hp', hf, if_pos, if_neg]

end Pandora.Bridge.C13
