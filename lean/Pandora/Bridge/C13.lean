/-
C13 — bridge between the definitions regenerated from the current source (`Pandora.Gen.C13Src`, written by
/verif/gen area `c13src` on every check run) and the models the property theorems are about.

Each lemma holds for ALL arguments: a changed comparison, constant, operator, or order of two dependent tests in
`mp.calcIndex`, `templater.randInt`, `readSized`, the decoders' `Scan`, `MultiPassReader.Read` or the progress
function of `DecodeProvider.Run` makes a lemma below fail to check.
-/
import Pandora.Gen.C13Src
import Pandora.Model.C13Funcs
import Pandora.Model.C13Multi
import Pandora.Model.C13Jsonline
import Pandora.Model.C13Grpc
import Pandora.Model.C13Cfg
import Pandora.Model.C13Csv
import Pandora.Model.C13Run

set_option linter.unusedSimpArgs false

namespace Pandora.Bridge.C13
open Pandora.Model.C13

/-- error classes are names given by the model; the regenerated code only says "an error" -/
def eraseErr {α : Type} : Res α → Res α
  | .err _ => .err "e"
  | r => r

theorem eraseErr_ok {α : Type} (r : Res α) (a : α) (h : r = .ok a) : eraseErr r = .ok a := by subst h; rfl
theorem eraseErr_err {α : Type} (r : Res α) (c : String) (h : r = .err c) : eraseErr r = .err "e" := by subst h; rfl
theorem eraseErr_returns {α : Type} (r : Res α) : (eraseErr r).returns = r.returns := by cases r <;> rfl

/-! ### `mp.calcIndex` -/

theorem calcIndex_bridge (indexStr : Bytes) (length next : Int) (rnd : Nat) :
    Gen.C13Src.calcIndex indexStr ((atoi indexStr).getD 0) (atoi indexStr).isNone length next rnd =
      eraseErr (calcIndex true indexStr length next rnd) := by
  unfold Gen.C13Src.calcIndex calcIndex isKw kwNext kwRand kwLast
  by_cases h1 : indexStr = [110, 101, 120, 116]
  · subst h1
    by_cases hl : length ≤ 0
    · simp (disch := omega) [eraseErr, hl, if_pos, if_neg]
    · by_cases hn : next ≥ length
      · have : length ≠ 0 := by omega
        simp (disch := omega) [eraseErr, hl, hn, tmodC, this, Res.bind, if_pos, if_neg]
      · simp (disch := omega) [eraseErr, hl, hn, Res.bind, if_pos, if_neg]
  · by_cases h2 : indexStr = [114, 97, 110, 100]
    · subst h2
      by_cases hl : length ≤ 0
      · simp (disch := omega) [eraseErr, hl, if_pos, if_neg]
      · simp (disch := omega) [eraseErr, hl, intnC, if_pos, if_neg]
    · by_cases h3 : indexStr = [108, 97, 115, 116]
      · subst h3
        by_cases hl : length ≤ 0
        · simp (disch := omega) [eraseErr, hl, if_pos, if_neg]
        · simp (disch := omega) [eraseErr, hl, if_pos, if_neg]
      · cases ha : atoi indexStr with
        | none => simp [eraseErr, h1, h2, h3]
        | some v =>
          by_cases hl : length ≤ 0
          · simp (disch := omega) [eraseErr, h1, h2, h3, hl, if_pos, if_neg]
          · have hne : length ≠ 0 := by omega
            by_cases hr : 0 ≤ v ∧ v < length
            · simp (disch := omega) [eraseErr, h1, h2, h3, hl, hr, if_pos, if_neg]
            · by_cases hm : Int.tmod v length < 0
              · simp (disch := omega) [eraseErr, h1, h2, h3, hl, hr, hm, tmodC, hne, Res.bind, if_pos, if_neg]
              · simp (disch := omega) [eraseErr, h1, h2, h3, hl, hr, hm, tmodC, hne, Res.bind, if_pos, if_neg]

/-! ### `templater.randInt` -/

theorem randInt_bridge (f t : Int) (rnd : Nat) :
    Gen.C13Src.randInt f t rnd = eraseErr (randInt true f t rnd) := by
  unfold Gen.C13Src.randInt randInt randIntBounds
  by_cases h : t < f
  · simp only [h, if_true]
    by_cases h0 : t = 0 ∧ f = 0
    · obtain ⟨rfl, rfl⟩ := h0
      omega
    · by_cases he : f = t
      · omega
      · by_cases hz : t = 0 ∧ f = 0
        · exact absurd hz h0
        · simp only [hz, if_false, he, Bool.true_and, decide_eq_true_eq]
          by_cases hd : wrap64 (f - t) ≤ 0
          · simp (disch := omega) [hd, eraseErr, if_pos, if_neg]
          · simp (disch := omega) [hd, eraseErr, intnC, Res.bind, if_pos, if_neg]
  · simp only [h, if_false]
    by_cases h0 : f = 0 ∧ t = 0
    · obtain ⟨rfl, rfl⟩ := h0
      simp only [and_self, if_true, Bool.true_and, decide_eq_true_eq]
      have h10 : ¬ ((10 : Int) = 0) := by omega
      simp only [h10, if_false]
      have hw : wrap64 10 = 10 := by unfold wrap64; omega
      simp (disch := omega) [eraseErr, intnC, Res.bind, hw, if_pos, if_neg]
    · simp only [h0, if_false, Bool.true_and, decide_eq_true_eq]
      by_cases he : t = f
      · subst he
        simp only [if_true]
        by_cases hd : wrap64 (wrap64 (t + 10) - t) ≤ 0
        · simp (disch := omega) [hd, eraseErr, if_pos, if_neg]
        · simp (disch := omega) [hd, eraseErr, intnC, Res.bind, if_pos, if_neg]
      · simp only [he, if_false]
        by_cases hd : wrap64 (t - f) ≤ 0
        · simp (disch := omega) [hd, eraseErr, if_pos, if_neg]
        · simp (disch := omega) [hd, eraseErr, intnC, Res.bind, if_pos, if_neg]

/-! ### `readSized` -/

/-- what `readSized` refuses before it allocates anything is what the model's reader answers with the error `size` -/
theorem readSized_bridge (size : Int) (rest : Bytes) :
    Gen.C13Src.readSizedTestFirst = true ∧
    (Gen.C13Src.readSizedRefuses size ↔ readBody true size rest = .err "size") := by
  refine ⟨rfl, ?_⟩
  unfold Gen.C13Src.readSizedRefuses readBody
  by_cases h : size < 0
  · simp (disch := omega) [h, if_pos, if_neg]
  · by_cases h2 : size > rest.length
    · simp (disch := omega) [h, h2, if_pos, if_neg]
    · simp (disch := omega) [h, h2, if_pos, if_neg]

/-- the reader never allocates more than one chunk ahead of the data it has read, and a chunk fits the memory the model assumes -/
theorem readChunkSize_bridge : 0 < Gen.C13Src.readChunkSize ∧ Gen.C13Src.readChunkSize ≤ memCap := by
  unfold Gen.C13Src.readChunkSize memCap
  omega

/-! ### the end of a pass in the decoders' `Scan`

The regenerated `…PassEnd` functions are the statements between the end of the file and the next read, executed in source
order. Each is proved equal to the model for ALL values: reordering independent statements or writing a test in an
equivalent way leaves the proofs intact, a changed test, a test moved across `d.passNum++`, or a missing seek does not. -/

/-- 0 = read again | 1 = ErrPassLimit | 2 = ErrNoAmmo -/
def passEndCode : PassEnd → Int
  | .again => 0
  | .stop .ok => 1
  | .stop _ => 2

theorem uripostPassEnd_bridge (passes passNum ammoNum : Nat) :
    (Gen.C13Src.uripostPassEnd passes passNum ammoNum).1 = passEndCode (httpPassEnd passes (passNum + 1) ammoNum) ∧
    ((Gen.C13Src.uripostPassEnd passes passNum ammoNum).1 = 0 →
      (Gen.C13Src.uripostPassEnd passes passNum ammoNum).2.1 = ((passNum + 1 : Nat) : Int) ∧
      (Gen.C13Src.uripostPassEnd passes passNum ammoNum).2.2 = true) := by
  unfold Gen.C13Src.uripostPassEnd httpPassEnd passEndCode
  by_cases h : passes ≠ 0 ∧ passNum + 1 ≥ passes
  · simp (disch := omega) [h, if_pos, if_neg]
  · by_cases ha : ammoNum = 0
    · simp (disch := omega) [h, ha, if_pos, if_neg]
    · simp (disch := omega) [h, ha, if_pos, if_neg]

theorem rawPassEnd_bridge (passes passNum ammoNum : Nat) :
    (Gen.C13Src.rawPassEnd passes passNum ammoNum).1 = passEndCode (httpPassEnd passes (passNum + 1) ammoNum) ∧
    ((Gen.C13Src.rawPassEnd passes passNum ammoNum).1 = 0 →
      (Gen.C13Src.rawPassEnd passes passNum ammoNum).2.1 = ((passNum + 1 : Nat) : Int) ∧
      (Gen.C13Src.rawPassEnd passes passNum ammoNum).2.2 = true) := by
  unfold Gen.C13Src.rawPassEnd httpPassEnd passEndCode
  by_cases h : passes ≠ 0 ∧ passNum + 1 ≥ passes
  · simp (disch := omega) [h, if_pos, if_neg]
  · by_cases ha : ammoNum = 0
    · simp (disch := omega) [h, ha, if_pos, if_neg]
    · simp (disch := omega) [h, ha, if_pos, if_neg]

/-- the raw decoder reads a last line that lacks its newline (dbbf16d): the pass ends only on io.EOF WITHOUT data and the
read-error test lets io.EOF through - which is what `rawStep` (over `readLineU`) models; `0` (dropped) would be `rawStepDrop` -/
theorem rawLastLine_bridge : Gen.C13Src.rawLastLine = 1 := rfl

theorem uriPassEnd_bridge (passes passNum ammoNum : Nat) :
    (Gen.C13Src.uriPassEnd passes passNum ammoNum).1 = passEndCode (httpPassEnd passes (passNum + 1) ammoNum) ∧
    ((Gen.C13Src.uriPassEnd passes passNum ammoNum).1 = 0 →
      (Gen.C13Src.uriPassEnd passes passNum ammoNum).2.1 = ((passNum + 1 : Nat) : Int) ∧
      (Gen.C13Src.uriPassEnd passes passNum ammoNum).2.2 = true) := by
  unfold Gen.C13Src.uriPassEnd httpPassEnd passEndCode
  by_cases h : passes ≠ 0 ∧ passNum + 1 ≥ passes
  · simp (disch := omega) [h, if_pos, if_neg]
  · by_cases ha : ammoNum = 0
    · simp (disch := omega) [h, ha, if_pos, if_neg]
    · simp (disch := omega) [h, ha, if_pos, if_neg]

/-- the jsonline decoder tests "no ammo" before it counts the pass, and the pass limit at the top of its loop, after the seek -/
theorem jsonlinePassEnd_bridge (passes passNum ammoNum : Nat) :
    (Gen.C13Src.jsonlinePassEnd passes passNum ammoNum).1 = passEndCode (jlPassEnd passes passNum ammoNum) ∧
    ((Gen.C13Src.jsonlinePassEnd passes passNum ammoNum).1 = 0 →
      (Gen.C13Src.jsonlinePassEnd passes passNum ammoNum).2.1 = ((passNum + 1 : Nat) : Int) ∧
      (Gen.C13Src.jsonlinePassEnd passes passNum ammoNum).2.2 = true) := by
  unfold Gen.C13Src.jsonlinePassEnd jlPassEnd passEndCode
  by_cases ha : ammoNum = 0
  · simp (disch := omega) [ha, if_pos, if_neg]
  · by_cases h : passes ≠ 0 ∧ passNum + 1 ≥ passes
    · simp (disch := omega) [h, ha, if_pos, if_neg]
    · simp (disch := omega) [h, ha, if_pos, if_neg]

/-- what the provider makes of the two orders is the same: `runFullScan` answers "no ammo" to a pass limit that is reached
before anything was delivered -/
theorem jlPassEnd_http (passes passNum ammoNum : Nat) :
    jlPassEnd passes passNum ammoNum = httpPassEnd passes (passNum + 1) ammoNum ∨
    (ammoNum = 0 ∧ jlPassEnd passes passNum ammoNum = .stop (.err "noammo") ∧ httpPassEnd passes (passNum + 1) ammoNum = .stop .ok) := by
  unfold jlPassEnd httpPassEnd
  by_cases ha : ammoNum = 0
  · by_cases h : passes ≠ 0 ∧ passNum + 1 ≥ passes
    · right; simp [ha, h]
    · left; simp [ha, h]
  · left; simp [ha]

/-! ### `scanAmmos` of the jsonline decoder -/

/-- the regenerated `scanAmmos` and the model agree for every array, pass limit and pair of counters: the same refusals,
and the element handed out is the one at the regenerated index, with the same counters afterwards; in particular the
regenerated `%` never divides by zero and the regenerated index is inside the slice -/
theorem scanAmmos_bridge (elems : List Bytes) (passes : Nat) (s : JlArr) :
    match Gen.C13Src.scanAmmos elems.length passes s.passNum s.ammoNum, scanAmmos elems passes s with
    | .err c, (r, s') => s' = s ∧ ((c = "noammo" ∧ r = .noAmmo) ∨ (c = "passlimit" ∧ r = .passLimit))
    | .ok (i, pn, an), (.ammo t, s') => indexC elems i = .ok t ∧ pn = s'.passNum ∧ an = s'.ammoNum
    | _, _ => False := by
  unfold Gen.C13Src.scanAmmos scanAmmos
  by_cases hlen : elems.length = 0
  · simp (disch := omega) [hlen, if_pos, if_neg]
  · by_cases hp : passes ≠ 0 ∧ s.passNum ≥ passes
    · simp (disch := omega) [hlen, hp, if_pos, if_neg]
    · have hne : ((elems.length : Nat) : Int) ≠ 0 := by omega
      have hcast : ((s.ammoNum : Int) % (elems.length : Int)) = ((s.ammoNum % elems.length : Nat) : Int) :=
        (Int.natCast_emod _ _).symm
      have hmod : Int.tmod (s.ammoNum : Int) (elems.length : Int) = (s.ammoNum : Int) % (elems.length : Int) :=
        Int.tmod_eq_emod_of_nonneg (by omega)
      have hlt : s.ammoNum % elems.length < elems.length := Nat.mod_lt _ (by omega)
      have hidx : indexC elems ((s.ammoNum : Int) % (elems.length : Int)) = .ok elems[s.ammoNum % elems.length] := by
        rw [hcast]
        unfold indexC
        rw [if_pos (by omega)]
        simp only [Int.toNat_natCast, List.getElem?_eq_getElem hlt]
      have hb : boundC ((s.ammoNum : Int) % (elems.length : Int)) (elems.length : Int) = .ok () := by
        rw [hcast]
        unfold boundC
        rw [if_pos (by omega)]
      simp (disch := omega) [hlen, hp, tmodC, hne, hmod, hidx, hb, Res.bind, if_pos, if_neg]
      split <;> simp

/-! ### `MultiPassReader.Read` at the end of the source -/

/-- the end of the source in the model of the repaired reader is the regenerated EOF block, executed in source order:
the pass is counted, `fruitless` comes from the bytes of the pass and the provider's progress function, the early return,
the seek test. Whether the block sets `passBytes` back to 0 is read off the regenerated block (`hres`); the theorems
about the reader hold for both answers. -/
theorem mprRead_bridge (data : Bytes) (passes : Nat) (s : MPR) (hend : data[s.pos]? = none)
    (hres : s.resets = decide ((Gen.C13Src.mprEof 1 0 0 false false).2.2.1 = 0)) :
    mprReadByte true data passes s =
      (let progress := decide (Gen.C13Src.dpProgress s.ammoNum s.passStart)
       let g := Gen.C13Src.mprEof s.passBytes s.passesCount passes true progress
       let s' : MPR := { s with passesCount := g.2.2.2.toNat, passBytes := g.2.2.1.toNat,
                                passStart := if s.passBytes ≠ 0 then s.ammoNum else s.passStart }
       if g.1 = true then (.eof, s') else if g.2.1 = true then (.again, { s' with pos := 0 }) else (.eof, s')) := by
  unfold mprReadByte Gen.C13Src.dpProgress
  rw [hend]
  simp only [if_true]
  cases hr : s.resets <;> simp [Gen.C13Src.mprEof, hr] at hres
  all_goals
    unfold Gen.C13Src.mprEof
    by_cases hb : s.passBytes = 0
    · simp (disch := omega) [hb, hr, if_pos, if_neg]
    · have hb' : ¬ ((s.passBytes : Int) = 0) := by omega
      by_cases hp : s.ammoNum > s.passStart
      · have hp' : ((s.ammoNum : Int) > s.passStart) := by omega
        have hnf : ¬ (s.passBytes = 0 ∨ ¬ s.ammoNum > s.passStart) := by
          intro h; rcases h with h | h
          · exact hb h
          · exact h hp
        by_cases hs : passes = 0 ∨ s.passesCount + 1 < passes
        · have hs' : ((passes : Int) ≤ 0 ∨ (s.passesCount : Int) + 1 < passes) := by omega
          simp (disch := omega) [hb, hb', hp, hp', hs, hs', hnf, hr, if_pos, if_neg]
          all_goals omega
        · have hs' : ¬ ((passes : Int) ≤ 0 ∨ (s.passesCount : Int) + 1 < passes) := by omega
          simp (disch := omega) [hb, hb', hp, hp', hs, hs', hnf, hr, if_pos, if_neg]
          all_goals omega
      · have hp' : ¬ ((s.ammoNum : Int) > s.passStart) := by omega
        have hf : (s.passBytes = 0 ∨ ¬ s.ammoNum > s.passStart) := .inr hp
        simp (disch := omega) [hb, hb', hp, hp', hf, hr, if_pos, if_neg]
        all_goals omega

/-! ### grpc/json: pooled ammo objects (round 3)

`Gen.C13Src.ammoReset` … are the methods of `ammo.Ammo` executed statement by statement, the object afterwards written out
field by field: a `Reset` that leaves a field of the pooled object as it was (the id, the invalid flag, the payload …)
is a different function and `ammoReset_bridge` fails; assignments in another order, a composite literal with or without
field names, or `a.isInvalid = false` written separately give the same function. -/

theorem ammoReset_bridge (a : GObj) (tag call metadata payload : Bytes) :
    Gen.C13Src.ammoReset a tag call metadata payload = gReset a ⟨tag, call, metadata, payload⟩ := by
  simp [Gen.C13Src.ammoReset, gReset]

theorem ammoInvalidate_bridge (a : GObj) : Gen.C13Src.ammoInvalidate a = gInvalidate a := by
  simp [Gen.C13Src.ammoInvalidate, gInvalidate]

theorem ammoSetID_bridge (a : GObj) (id : Nat) : Gen.C13Src.ammoSetID a id = gSetID a id := by
  simp [Gen.C13Src.ammoSetID, gSetID]

theorem ammoIsInvalid_bridge (a : GObj) : Gen.C13Src.ammoIsInvalid a = a.isInvalid := by
  simp [Gen.C13Src.ammoIsInvalid]

/-- the two accessors never disagree -/
theorem ammoIsValid_bridge (a : GObj) : Gen.C13Src.ammoIsValid a = !Gen.C13Src.ammoIsInvalid a := by
  simp [Gen.C13Src.ammoIsValid, Gen.C13Src.ammoIsInvalid]

/-- `decodeAmmo` as it stands resets the pooled object on BOTH paths (the model's `fixed := true`) -/
theorem decodeAmmo_bridge (parsed : Option GFields) (am : GObj) :
    Gen.C13Src.decodeAmmo parsed am = gDecodeAmmo true parsed am := by
  cases parsed <;> simp [Gen.C13Src.decodeAmmo, gDecodeAmmo, ammoReset_bridge, GFields.zero]

/-- the body of the scan loop of `Provider.start` -/
theorem startBody_bridge (coe : Bool) (chosen : Bytes → Bool) (parsed : Option GFields) (pooled : GObj) (ammoNum : Nat) :
    Gen.C13Src.startBody coe chosen parsed pooled ammoNum =
      (gBody true coe chosen parsed pooled ammoNum).map fun r => (r.1, (r.2 : Int)) := by
  unfold Gen.C13Src.startBody gBody
  rw [decodeAmmo_bridge]
  cases parsed with
  | none =>
    cases coe <;> cases hc : chosen [] <;>
      simp [gDecodeAmmo, gReset, gInvalidate, ammoInvalidate_bridge, GFields.zero, hc]
  | some f =>
    cases coe <;> cases hc : chosen f.tag <;>
      simp [gDecodeAmmo, gReset, gInvalidate, ammoInvalidate_bridge, GFields.zero, hc]

/-- the limit half of the loop condition -/
theorem startLoopCond_bridge (limit ammoNum : Nat) :
    Gen.C13Src.startLoopCond limit ammoNum ↔ ¬ (limit ≠ 0 ∧ ammoNum ≥ limit) := by
  unfold Gen.C13Src.startLoopCond
  omega

def grpcEndCode : PassEnd → Int
  | .again => 0
  | .stop .ok => 1
  | .stop (.err c) => if c == "toolong" then 3 else 2
  | .stop _ => 5

/-- one round of the outer loop: the pass counter is advanced first, the scanner's error comes before the limits, the
"no ammo" answer before the seek -/
theorem grpcPassEnd_bridge (limit passes passNum ammoNum : Nat) (scanErr : Bool) :
    Gen.C13Src.grpcPassEnd limit passes passNum ammoNum scanErr =
      grpcEndCode (grpcPassEnd true limit passes (passNum + 1) ammoNum scanErr) := by
  unfold Gen.C13Src.grpcPassEnd grpcPassEnd
  cases scanErr
  · by_cases h1 : limit ≠ 0 ∧ ammoNum ≥ limit
    · have h1' : ((limit : Int) ≠ 0 ∧ (ammoNum : Int) ≥ limit) := by omega
      simp (disch := omega) [h1, h1', grpcEndCode, if_pos, if_neg]
    · have h1' : ¬ ((limit : Int) ≠ 0 ∧ (ammoNum : Int) ≥ limit) := by omega
      by_cases h2 : passes ≠ 0 ∧ passNum + 1 ≥ passes
      · have h2' : ((passes : Int) ≠ 0 ∧ (passNum : Int) + 1 ≥ passes) := by omega
        simp (disch := omega) [h1, h1', h2, h2', grpcEndCode, if_pos, if_neg]
      · have h2' : ¬ ((passes : Int) ≠ 0 ∧ (passNum : Int) + 1 ≥ passes) := by omega
        by_cases h3 : ammoNum = 0
        · simp (disch := omega) [h1, h1', h2, h2', h3, grpcEndCode, if_pos, if_neg]
        · have h3' : ¬ ((ammoNum : Int) = 0) := by omega
          simp (disch := omega) [h1, h1', h2, h2', h3, h3', grpcEndCode, if_pos, if_neg]
  · simp [grpcEndCode]

/-! ### round 4: `runFullScan` with `chosen_cases`, the plugin name of `parseConf`, the separator of `readCsv` -/

/-- what one round of `runFullScan` does in front of `Scan`, as the model `ccMulti` / `jlArrayLoopCC` has it: the limit
first, then "a complete pass delivered nothing" -/
def fullScanHeadModel (guarded : Bool) (limit ammoNum passNum : Nat) : Int :=
  if limit ≠ 0 ∧ ammoNum ≥ limit then 1 else if guarded ∧ ammoNum = 0 ∧ passNum > 0 then 2 else 0

/-- the regenerated head of the loop is the model's, for all counters; `guarded` of the model = the decoder answers the
`passCounter` assertion -/
theorem fullScanHead_bridge (limit ammoNum passNum : Nat) (has : Bool) :
    Gen.C13Src.fullScanHead limit ammoNum has passNum = fullScanHeadModel has limit ammoNum passNum := by
  unfold Gen.C13Src.fullScanHead fullScanHeadModel
  by_cases h1 : limit ≠ 0 ∧ ammoNum ≥ limit
  · have h1' : ((limit : Int) ≠ 0 ∧ (ammoNum : Int) ≥ limit) := by omega
    simp (disch := omega) [h1, h1', if_pos, if_neg]
  · have h1' : ¬ ((limit : Int) ≠ 0 ∧ (ammoNum : Int) ≥ limit) := by omega
    cases has
    · simp (disch := omega) [h1, h1', if_pos, if_neg]
    · by_cases h2 : ammoNum = 0 ∧ passNum > 0
      · have h2' : ((ammoNum : Int) = 0 ∧ (passNum : Int) > 0) := by omega
        simp (disch := omega) [h1, h1', h2, h2', if_pos, if_neg]
      · have h2' : ¬ ((ammoNum : Int) = 0 ∧ (passNum : Int) > 0) := by omega
        simp (disch := omega) [h1, h1', h2, h2', if_pos, if_neg]

/-- every file decoder of the http provider answers the assertion `p.Decoder.(passCounter)` of `runFullScan` (from the
types of the current source: the method set of `*<decoder>` holds the interface's methods with identical signatures) -/
theorem passCounter_bridge : Gen.C13Src.passCounterDecoders.all (fun d => d.2) = true ∧
    Gen.C13Src.passCounterDecoders.map (fun d => d.1) = ["uripostDecoder", "rawDecoder", "uriDecoder", "jsonlineDecoder"] := by
  decide

/-- the block behind a failed `Scan`, as `ccMulti` has it: a pass limit with nothing delivered is "no ammo", the two limit
sentinels are the regular end, any other error is the run's error -/
theorem fullScanAfterErr_bridge (ammoNum : Nat) (isPassLimit isAmmoLimit : Bool) :
    Gen.C13Src.fullScanAfterErr ammoNum isPassLimit isAmmoLimit =
      if ammoNum = 0 ∧ isPassLimit = true then 2 else if isAmmoLimit = true ∨ isPassLimit = true then 1 else 0 := by
  unfold Gen.C13Src.fullScanAfterErr
  cases isPassLimit <;> cases isAmmoLimit <;> by_cases h : ammoNum = 0 <;>
    simp (disch := omega) [h, if_pos, if_neg] <;> omega

/-- `ammoNum` of `runFullScan` counts delivered ammo only (what the limit and the "nothing delivered" test are about) -/
theorem fullScanCounts_bridge : Gen.C13Src.fullScanCountsDelivered = true := by decide

/-- `parseConf`: the name it hands on is empty only if the string it tested is - the registry's `expect(name != "")`
cannot be reached with user data -/
theorem parseConf_bridge (raw : Bytes) : Gen.C13Src.pcReturned raw = [] → Gen.C13Src.pcTested raw = [] := by
  intro h
  simpa [Gen.C13Src.pcReturned, Gen.C13Src.pcTested] using h

/-- `readCsv`: where `delimiter[i]` is evaluated the index is inside the string, and the separator chosen is the model's -/
theorem csvComma_bridge (delimiter : Bytes) :
    (Gen.C13Src.csvCommaGuard delimiter → boundC Gen.C13Src.csvCommaIndex delimiter.length = .ok ()) ∧
    (if Gen.C13Src.csvCommaGuard delimiter then indexC delimiter Gen.C13Src.csvCommaIndex else .ok 44) = csvComma true delimiter := by
  cases delimiter <;>
    simp [Gen.C13Src.csvCommaGuard, Gen.C13Src.csvCommaIndex, boundC, csvComma, indexC] <;> omega

/-- `readCsv`: inside the loop over the column names the record is indexed only where it has the column (`i` = the key of
a `range`, so `0 ≤ i`), and exactly there - as `csvRowFrom true` has it (`if i ≥ record.length then "" else record[i]`) -/
theorem csvRecord_bridge (i recLen : Int) (hi : 0 ≤ i) :
    (Gen.C13Src.csvRecordGuard i recLen → boundC (Gen.C13Src.csvRecordIndex i recLen) recLen = .ok ()) ∧
    (Gen.C13Src.csvRecordGuard i recLen ↔ ¬ i ≥ recLen) := by
  unfold Gen.C13Src.csvRecordGuard Gen.C13Src.csvRecordIndex boundC
  constructor
  · intro h
    have : 0 ≤ i ∧ i < recLen := by omega
    simp [this]
  · omega

/-! ### round 6: the bounds on what is allocated from an announced repeat count; the end of `Run` -/

theorem maxScenarioRequests_bridge : Gen.C13Src.maxScenarioRequests = maxScenarioRequests := rfl
theorem maxSpreadSize_bridge : Gen.C13Src.maxSpreadSize = maxSpreadSize := rfl
theorem maxRandStringLength_bridge : Gen.C13Src.maxRandStringLength = maxRandStringLength := rfl

/-- the tests in front of the append loop of `convertScenarioToAmmo` (http and grpc) refuse exactly the counts the model's
`expandGo` refuses: more than what is left of `MaxScenarioRequests` (written in any equivalent way) -/
theorem repeatRefused_bridge (cnt have_ : Int) :
    (Gen.C13Src.httpRepeatRefused cnt have_ ↔ cnt > maxScenarioRequests - have_) ∧
    (Gen.C13Src.grpcRepeatRefused cnt have_ ↔ cnt > maxScenarioRequests - have_) := by
  unfold Gen.C13Src.httpRepeatRefused Gen.C13Src.grpcRepeatRefused maxScenarioRequests
  constructor <;> constructor <;> intro h <;> omega

/-- `CheckSpread` is the model's `checkSpread`, and both `decodeAmmo` call it between `SpreadNames` and the first `make` -/
theorem checkSpread_bridge (counts : List Int) (total : Int) :
    Gen.C13Src.httpDecodeAmmoChecksSpread = true ∧ Gen.C13Src.grpcDecodeAmmoChecksSpread = true ∧
    (checkSpread counts total = true ↔ (Gen.C13Src.checkSpreadTotal total ∨ ∃ c ∈ counts, Gen.C13Src.checkSpreadCount c)) := by
  refine ⟨rfl, rfl, ?_⟩
  unfold checkSpread Gen.C13Src.checkSpreadTotal Gen.C13Src.checkSpreadCount maxSpreadSize
  simp only [Bool.or_eq_true, decide_eq_true_eq, List.any_eq_true]
  -- (closed by `simp only` when the source writes the tests as the model does; the rest is for equivalent rewritings)
  try
    constructor
    · rintro (h | ⟨c, hc, h⟩)
      · left; omega
      · right; exact ⟨c, hc, by omega⟩
    · rintro (h | ⟨c, hc, h⟩)
      · left; omega
      · right; exact ⟨c, hc, by omega⟩

/-- `randString` after its `ParseInt`: the regenerated function is the model's (error classes erased) -/
theorem randStringLen_bridge (n : Int) :
    Gen.C13Src.randStringLen n = eraseErr ((randStringLen true n).bind fun k => .ok (k : Int)) := by
  unfold Gen.C13Src.randStringLen randStringLen makeRunesC maxRandStringLength maxAlloc memCap
  by_cases h0 : n = 0
  · subst h0; simp [eraseErr, Res.bind]
  · by_cases hn : n < 0
    · simp [h0, hn, eraseErr, Res.bind]
    · by_cases hb : n > 16777216
      · simp [h0, hn, hb, eraseErr, Res.bind]
      · have a : ¬ n * 4 > 281474976710656 := by omega
        have b : ¬ n * 4 > 4294967296 := by omega
        have c : ((n.toNat : Nat) : Int) = n := by omega
        simp [h0, hn, hb, a, b, c, eraseErr, Res.bind]

/-- in the `Run` of each of the four providers the defer that closes the sink stands in front of every statement that may
return (a `return` moved above it - an early error path without the close - makes this false) -/
theorem runClosesSink_bridge :
    closesOnEveryReturn Gen.C13Src.grpcRunStmts = true ∧ closesOnEveryReturn Gen.C13Src.httpRunStmts = true ∧
    closesOnEveryReturn Gen.C13Src.decodeRunStmts = true ∧ closesOnEveryReturn Gen.C13Src.scenarioRunStmts = true := by
  decide

end Pandora.Bridge.C13
