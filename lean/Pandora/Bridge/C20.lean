/-
Bridge C20: the definitions regenerated from /repo's CURRENT source (`Pandora/Gen/GrpcGun.lean`, rewritten on every
check run) are what the hand-written model `Model/C20.lean` assumes. If the source changes any of
these, this file stops compiling and the check reports a broken obligation.
-/
import Pandora.Gen.GrpcGun
import Pandora.Model.C20Expand
import Pandora.Model.C20
import Pandora.Model.C20Net
import Pandora.Model.C20Feed

namespace Pandora.Bridge.C20
open Pandora.Model.C20

/-! ### timeouts (core.go `shoot`, scenario/core.go `shootStep`) -/

/-- the plain gun's timeout selection is the model's `effTimeoutMs` (configured value, 15 s when 0) -/
theorem gunTimeout_eq (ms : Nat) :
    Gen.GrpcGun.gunTimeoutNs ((ms : Int) * 1000000) = ((effTimeoutMs ms : Nat) : Int) * 1000000 := by
  -- the same script proves both forms the translator emits (the `if … != 0` shape; round 6: the symbolically executed one)
  unfold Gen.GrpcGun.gunTimeoutNs effTimeoutMs
  try unfold Gen.GrpcGun.gunDefaultTimeoutNs
  by_cases h : ms = 0
  · subst h; simp
  · have : ((ms : Int) * 1000000) ≠ 0 := by omega
    simp [h, this]

/-- so is the scenario gun's -/
theorem scenarioTimeout_eq (ms : Nat) :
    Gen.GrpcGun.scenarioTimeoutNs ((ms : Int) * 1000000) = ((effTimeoutMs ms : Nat) : Int) * 1000000 := by
  -- the same script proves both forms the translator emits (the `if … != 0` shape; round 6: the symbolically executed one)
  unfold Gen.GrpcGun.scenarioTimeoutNs effTimeoutMs
  try unfold Gen.GrpcGun.scenarioDefaultTimeoutNs
  by_cases h : ms = 0
  · subst h; simp
  · have : ((ms : Int) * 1000000) ≠ 0 := by omega
    simp [h, this]

/-- the selection reads the gun's configured timeout -/
theorem gunTimeoutConf_eq : Gen.GrpcGun.gunTimeoutConf = "$recv.Conf.Timeout" := rfl
theorem scenarioTimeoutConf_eq : Gen.GrpcGun.scenarioTimeoutConf = "$recv.gun.Conf.Timeout" := rfl

/-- the context given to `InvokeRpc` is `WithTimeout(Background, timeout)` wrapped by `NewOutgoingContext`: one
deadline PER CALL, made inside `shoot` / `shootStep` -/
theorem gunContextChain_eq : Gen.GrpcGun.gunContextChain = "WithTimeout>NewOutgoingContext>InvokeRpc" := rfl
theorem scenarioContextChain_eq : Gen.GrpcGun.scenarioContextChain = "WithTimeout>NewOutgoingContext>InvokeRpc" := rfl

/-! ### method, message, metadata of the call

In the regenerated strings `$recv` is the method's receiver, `$0`, `$1` … its parameters by position, `$key` / `$value` the
variables of a range statement, `resultN(e)` the N-th result of the multi-valued `e`; local variables are replaced by
their single definition. Renaming a local, a parameter or the receiver, or reordering independent statements, leaves
them unchanged. -/

/-- method descriptor = the reflected table at the ammo's `Call`; message = a dynamic message of that method's INPUT
type filled by `UnmarshalJSON` from the marshalled payload map; metadata = the ammo's metadata; sent through the
instance's stub -/
theorem gunMethodSource_eq : Gen.GrpcGun.gunMethodSource = "result0($recv.Services[$0.Call])" := rfl
theorem gunMessageSource_eq :
    Gen.GrpcGun.gunMessageSource = "dynamic.NewMessage(result0($recv.Services[$0.Call]).GetInputType())" := rfl
theorem gunMessageFill_eq : Gen.GrpcGun.gunMessageFill = "UnmarshalJSON(result0(json.Marshal($0.Payload)))" := rfl
theorem gunMetadataSent_eq : Gen.GrpcGun.gunMetadataSent = "$0.Metadata" := rfl
theorem gunStub_eq : Gen.GrpcGun.gunStub = "$recv.Stub.InvokeRpc" := rfl

/-- scenario step: the same with the step's `Call`; the message is filled from what `templ.Apply` returns for the
step's payload template; the templater renders the metadata into a CLONE of the definition's map and that clone is
what `metadata.New` gets (model variant `Variant.copy`) -/
theorem scenarioMethodSource_eq : Gen.GrpcGun.scenarioMethodSource = "result0($recv.gun.Services[$0.Call])" := rfl
theorem scenarioMessageSource_eq :
    Gen.GrpcGun.scenarioMessageSource = "dynamic.NewMessage(result0($recv.gun.Services[$0.Call]).GetInputType())" := rfl
theorem scenarioMessageFill_eq :
    Gen.GrpcGun.scenarioMessageFill =
      "UnmarshalJSON(result0($recv.templ.Apply($0.Payload, maps.Clone($0.Metadata), $3, $2, $0.Name)))" := rfl
theorem scenarioMetadataRendered_eq : Gen.GrpcGun.scenarioMetadataRendered = "maps.Clone($0.Metadata)" := rfl
theorem scenarioMetadataSent_eq : Gen.GrpcGun.scenarioMetadataSent = "maps.Clone($0.Metadata)" := rfl
theorem scenarioSendsWhatItRendered_eq : Gen.GrpcGun.scenarioSendsWhatItRendered = true := rfl
theorem scenarioApplyArgs_eq : Gen.GrpcGun.scenarioApplyArgs = "$0.Payload,$2,$0.Name" := rfl
theorem scenarioStub_eq : Gen.GrpcGun.scenarioStub = "$recv.gun.Stub.InvokeRpc" := rfl
/-- `TextTemplater.Apply` writes the rendered values into the map it is given (which is why it must be a clone) -/
theorem templaterWrites_eq : Gen.GrpcGun.templaterWrites = "1 index assignment(s) to parameter $1 (the metadata map)" := rfl

/-! ### template cache (templater_text.go): the model's cache is keyed by (gun, scenario, call, metadata key) -/

/-- the cache key is a struct of the four names, not a joined string: distinct (scenario, step, part, key) never share
a template (the model's `World.caches` + `Cache` index) -/
theorem templateCacheKey_eq : Gen.GrpcGun.templateCacheKey = "struct{scenario,step,part,key}" := rfl
theorem templateLookups_eq : Gen.GrpcGun.templateLookups =
    ["string($0) | templateKey{scenario: $3, step: $4, part: partPayload}",
     "$value | templateKey{scenario: $3, step: $4, part: partMetadata, key: $key}"] := rfl
/-- payload and metadata templates are told apart by two different constants -/
theorem templateParts_eq : Gen.GrpcGun.templateParts = [("partPayload", "payload"), ("partMetadata", "metadata")] := rfl

/-! ### instances (`Bind`, shared_deps.go) -/

theorem bindServices_eq : Gen.GrpcGun.bindServices = "result0($1.Shared.(*SharedDeps)).services" := rfl
theorem bindStub_eq : Gen.GrpcGun.bindStub =
    "if result0($1.Shared.(*SharedDeps)).clientPool != nil then result0($1.Shared.(*SharedDeps)).clientPool.Next() else grpcdynamic.NewStub(result0($recv.makeConnect()))" := rfl

/-! ### endpoints (`Model/C20Net.lean`) -/

/-- `makeConnect` dials the configured target, `makeReflectionConnect` the target with the reflection port
(`dialAddr`) -/
theorem connectTarget_eq :
    Gen.GrpcGun.connectTarget = "MakeGRPCConnect($recv.Conf.Target, $recv.Conf.TLS, $recv.Conf.DialOptions)" := rfl
theorem reflectionTarget_eq : Gen.GrpcGun.reflectionTarget =
    "MakeGRPCConnect(replacePort($recv.Conf.Target, $recv.Conf.ReflectPort), $recv.Conf.TLS, $recv.Conf.DialOptions)" := rfl
/-- only the warm-up's descriptor request uses the reflection connection; the shared pool's connections and an
instance's own connection are made by `makeConnect` (`Dial.reflection` / `Dial.pool` / `Dial.own`) -/
theorem reflectDial_eq : Gen.GrpcGun.reflectDial = "result0($recv.makeReflectionConnect())" := rfl
theorem poolDial_eq : Gen.GrpcGun.poolDial = "result0($recv.makeConnect())" := rfl
theorem bindDial_eq : Gen.GrpcGun.bindDial = "result0($recv.makeConnect())" := rfl
/-- the reflection request carries `reflect_metadata`; `shoot` / `shootStep` never look at the reflection settings -/
theorem reflectContext_eq : Gen.GrpcGun.reflectContext =
    "metadata.NewOutgoingContext(context.Background(), metadata.New($recv.Conf.ReflectMetadata))" := rfl
theorem reflectSettingsInShoot_eq : Gen.GrpcGun.reflectSettingsInShoot = [] := rfl

/-- `replacePort` is the decision list the model's `replacePort` implements: port 0 ↦ host; no `:` ↦ append; last
part not an int64 ↦ append; otherwise replace the last part -/
theorem replacePortRows_eq : Gen.GrpcGun.replacePortRows =
    [("$1 == 0", "$0"),
     ("len(strings.Split($0, \":\")) == 1", "$0 + \":\" + strconv.FormatInt($1, 10)"),
     ("result1(strconv.ParseInt(strings.Split($0, \":\")[len(strings.Split($0, \":\")) - 1], 10, 64)) != nil",
      "$0 + \":\" + strconv.FormatInt($1, 10)"),
     ("otherwise", "strings.Join(strings.Split($0, \":\"), \":\")")] := rfl
theorem replacePortStores_eq : Gen.GrpcGun.replacePortStores =
    ["strings.Split($0, \":\")[len(strings.Split($0, \":\")) - 1] = strconv.FormatInt($1, 10)"] := rfl

/-- the scenario gun hands its target, reflection settings, timeout and TLS flag down to the plain gun it wraps -/
theorem scenarioConfCopies_eq : Gen.GrpcGun.scenarioConfCopies =
    [("Target", "$0.Target"), ("ReflectPort", "$0.ReflectPort"), ("ReflectMetadata", "$0.ReflectMetadata"),
     ("Timeout", "$0.Timeout"), ("TLS", "$0.TLS")] := rfl

/-! ### the scenario gun's failure path and the life time of its variables (`Model.C20.shootStep`, `shootSteps`, `svFor`) -/

/-- a step that returns an error ends the shot (`shootSteps`: `.failed` ⇒ `.done`) -/
theorem scenarioOnStepError_eq : Gen.GrpcGun.scenarioOnStepError = "range $0.Calls: return the step's error" := rfl
/-- every shot starts with empty request variables (`runSched` starts every shot with `{ a := none, i := none }`) -/
theorem scenarioRequestVars_eq : Gen.GrpcGun.scenarioRequestVars = "$1[\"request\"] = map[string]any{}" := rfl
/-- a step's own variables are emptied before its templates are rendered (`svFor`: the `auth` step does not see the
token of an earlier `auth`) -/
theorem scenarioStepVarsReset_eq :
    Gen.GrpcGun.scenarioStepVarsReset = "$4[$0.Name] = map[string]any{}; before templ.Apply=true" := rfl
/-- exactly one sample per step, whatever path the step takes -/
theorem scenarioSampleReport_eq :
    Gen.GrpcGun.scenarioSampleReport = "defer reports the sample=true; no return before it=true" := rfl
/-- a template that cannot be parsed / executed ends the step before the call (`callBad`) -/
theorem scenarioTemplateErrorOrder_eq :
    Gen.GrpcGun.scenarioTemplateErrorOrder = "templ.Apply; if its error != nil return; … InvokeRpc" := rfl

/-! ### the templater renders EVERY metadata value -/

/-- the loop ranges over the map it was given, executes every value's template with the step's variables and stores
the result under the same key of the same map; there is no condition under which a value is skipped -/
theorem templaterLoop_eq : Gen.GrpcGun.templaterLoop =
    "range $1 | execute with $2 | store same-map-same-key=true := String() of the executed-into builder=true" := rfl
theorem templaterLoopGuards_eq : Gen.GrpcGun.templaterLoopGuards = [] := rfl
theorem templaterLoopExits_eq : Gen.GrpcGun.templaterLoopExits = [] := rfl
/-- every template (payload and metadata alike) is parsed with pandora's template functions registered -/
theorem templateParse_eq : Gen.GrpcGun.templateParse = "Funcs(templater.GetFuncs()).Parse($0)" := rfl

/-! ### configuration and ammo field names the harness writes -/

theorem gunConfigTags_timeout : ("Timeout", "timeout") ∈ Gen.GrpcGun.gunConfigTags := by decide
theorem gunConfigTags_shared : ("SharedClient", "shared-client,omitempty") ∈ Gen.GrpcGun.gunConfigTags := by decide
theorem sharedClientTags_eq :
    Gen.GrpcGun.sharedClientTags = [("ClientNumber", "client-number,omitempty"), ("Enabled", "enabled")] := rfl
theorem gunConfigTags_reflect :
    ("ReflectPort", "reflect_port") ∈ Gen.GrpcGun.gunConfigTags ∧ ("ReflectMetadata", "reflect_metadata") ∈ Gen.GrpcGun.gunConfigTags := by
  decide
theorem scenarioGunConfigTags_reflect :
    ("ReflectPort", "reflect_port") ∈ Gen.GrpcGun.scenarioGunConfigTags ∧
      ("ReflectMetadata", "reflect_metadata") ∈ Gen.GrpcGun.scenarioGunConfigTags := by
  decide
theorem scenarioGunConfigTags_timeout : ("Timeout", "timeout") ∈ Gen.GrpcGun.scenarioGunConfigTags := by decide
theorem ammoJsonTags_eq :
    Gen.GrpcGun.ammoJsonTags = [("Tag", "tag"), ("Call", "call"), ("Metadata", "metadata"), ("Payload", "payload")] := rfl

/-- grpc/json decodes every line into a fresh zero-valued ammo and resets the pooled object with all four of its
fields; `Reset` assigns the whole struct (`Model.C20.decodeAmmo`, `resetAmmo`) -/
theorem ammoDecodeInto_eq : Gen.GrpcGun.ammoDecodeInto = "&$fresh (a zero-valued local of type grpc.Ammo)" := rfl
theorem ammoResetCall_eq :
    Gen.GrpcGun.ammoResetCall =
      "$1.Reset(\"\", \"\", nil, nil);$1.Reset($fresh.Tag, $fresh.Call, $fresh.Metadata, $fresh.Payload)" := rfl
theorem ammoResetBody_eq : Gen.GrpcGun.ammoResetBody = "*$recv = Ammo{$0, $1, $2, $3, 0, false}" := rfl

/-- grpc/json keeps payload numbers as written (`json.Number`): the model's `convert` works on the literal text -/
theorem payloadNumbers_eq : Gen.GrpcGun.payloadNumbers = "json.Number" := rfl

/-! ### the example service (examples/grpc/server) and the status codes the model uses -/

theorem serviceName_eq : Gen.GrpcGun.serviceName = svc := rfl

/-- the model's method table is the one of the generated service code (methods, request fields in field-number
order with proto name, JSON name and kind) -/
theorem methodTable_eq :
    Gen.GrpcGun.methodTable = methodTable.map fun (m, fs) => (m, fs.map fun f => (f.name, f.jsonName, kindText f.kind)) := by
  decide

/-- `ConvertGrpcStatus`: OK ↦ 200, InvalidArgument ↦ 400 (the two replies of the example service, `serverCode`) -/
theorem status_ok : Gen.GrpcGun.statusOk = 200 := rfl
theorem status_invalid_argument : Gen.GrpcGun.statusInvalidArgument = 400 := rfl

/-- … and the whole of it: the switch of `ConvertGrpcStatus`, as a table from gRPC status code numbers to reported codes
with its default, is the model's `statusTable` / `statusDefault` (`convertStatus`, used for injected faults) -/
theorem statusTable_eq : Gen.GrpcGun.statusTable = statusTable := rfl
theorem statusDefault_eq : Gen.GrpcGun.statusDefault = statusDefault := rfl

/-! ### the grpc/json provider's reading loop (`Model.C20.scanPass`, `runPasses`, `action`)

Canonical statements: `$recv` the provider, `$0` the context, `$1` the file, `$int0` the ammo counter, `$int1` the pass
counter, `$int2` the line number, `$*bufio.Scanner0` the pass's scanner, `$*ammo.Ammo0` the decoded ammo. -/

/-- every pass counts itself, makes a NEW scanner and gives it the configured buffer (`Raw.long` is judged per pass) -/
theorem providerPassPrologue_eq : Gen.GrpcGun.providerPassPrologue =
    ["$int1++", "$*bufio.Scanner0 := bufio.NewScanner($1)",
     "if $recv.Config.MaxAmmoSize != 0 { var $[]byte0 []byte $*bufio.Scanner0.Buffer($[]byte0, $recv.Config.MaxAmmoSize) }"] := rfl
/-- the scanner is asked first, then the limit (`scanPass`: `isLong` before the limit) -/
theorem providerLoopCond_eq : Gen.GrpcGun.providerLoopCond =
    "$*bufio.Scanner0.Scan() && ($recv.Limit == 0 || $int0 < $recv.Limit)" := rfl
/-- decode into a pooled ammo; on an error invalidate (continueonerror) or stop; drop tags that are not chosen; count;
deliver (`action`, `scanPass`) -/
theorem providerLoopBody_eq : Gen.GrpcGun.providerLoopBody =
    ["$[]byte1 := $*bufio.Scanner0.Bytes()",
     "$*ammo.Ammo0, $error0 := decodeAmmo($[]byte1, $recv.Pool.Get().(*ammo.Ammo))",
     "if $error0 != nil { if $recv.Config.ContinueOnError { $*ammo.Ammo0.Invalidate() } else { return errors.Wrapf($error0, \"…\", $int2, $[]byte1) } }",
     "if !confutil.IsChosenCase($*ammo.Ammo0.Tag, $recv.Config.ChosenCases) { continue }",
     "$int0++",
     "select { case $recv.Sink <- $*ammo.Ammo0: case <-$0.Done(): return nil }"] := rfl
/-- after a pass: scanner error ⇒ stop; limit reached ⇒ done; passes done ⇒ done; nothing delivered at all ⇒ error;
rewind (`runPasses`) -/
theorem providerAfterPass_eq : Gen.GrpcGun.providerAfterPass =
    ["$error1 := $*bufio.Scanner0.Err()", "if $error1 != nil { return errors.Wrap($error1, \"…\") }",
     "if $recv.Limit != 0 && $int0 >= $recv.Limit { break }", "if $recv.Passes != 0 && $int1 >= $recv.Passes { break }",
     "if $int0 == 0 { return errors.New(\"…\") }", "_, $error1 = $1.Seek(0, 0)",
     "if $error1 != nil { return errors.Wrap($error1, \"…\") }"] := rfl
/-- a line that cannot be decoded leaves NOTHING of the pooled object's previous entry (`invalidEntry = zeroEntry`) … -/
theorem ammoDecodeOnError_eq : Gen.GrpcGun.ammoDecodeOnError =
    ["$1.Reset(\"\", \"\", nil, nil)", "return $1, errors.WithStack($error0)"] := rfl
/-- … and the gun does not shoot an ammo marked invalid: it returns before the method lookup, making no call (the
deferred report gives the one failed sample) -/
theorem gunInvalidAmmo_eq : Gen.GrpcGun.gunInvalidAmmo =
    "if $0.IsInvalid() { … return=true }; calls inside=0; before the method lookup=true" := rfl

/-! ### shared client pool size (`Model.C20.effClients`) -/

theorem poolGuards_eq : Gen.GrpcGun.poolGuards =
    ["if !$recv.Conf.SharedClient.Enabled { return nil, nil }",
     "if $recv.Conf.SharedClient.ClientNumber < 1 { $recv.Conf.SharedClient.ClientNumber = 1 }"] := rfl
theorem poolSize_eq : Gen.GrpcGun.poolSize = "$recv.Conf.SharedClient.ClientNumber" := rfl
theorem poolLoop_eq : Gen.GrpcGun.poolLoop =
    "for $int0 := 0; $int0 < $recv.Conf.SharedClient.ClientNumber; $int0++ | Add calls=1" := rfl

/-! ### scenario provider and gun: registry of calls, postprocessors (`Model.C20.registry`, `assertFails`) -/

/-- the registry is filled in file order by plain assignment: the last definition of a name wins; requests are resolved
through it -/
theorem scenarioCallRegistry_eq : Gen.GrpcGun.scenarioCallRegistry =
    "for $int0, $config.CallConfig0 := range $0.Calls { $map[string]config.CallConfig0[$config.CallConfig0.Name] = $config.CallConfig0 }" := rfl
theorem scenarioCallLookup_eq : Gen.GrpcGun.scenarioCallLookup = "$1[$string1]" := rfl
/-- the postprocessors run after the call, with the reply and its code; an error ends the step -/
theorem scenarioPostprocessors_eq : Gen.GrpcGun.scenarioPostprocessors =
    "range $0.Postprocessors { $map[string]any3, $error3 := $scenario.Postprocessor0.Process($protoiface.MessageV10, $int0) ; if $error3 != nil { return fmt.Errorf(\"…\", op, $error3) } ; $map[string]any0 = mergeMaps($map[string]any0, $map[string]any3) } | after InvokeRpc=true" := rfl
/-- assert/response: a configured status code other than the reply's is an error -/
theorem assertStatusCheck_eq : Gen.GrpcGun.assertStatusCheck =
    "if $recv.StatusCode != 0 && $recv.StatusCode != $1 { return an error=true }" := rfl


/-! ### round 4: code the anchored files depend on (`gen/area_grpcgun_r4.go`)

Canonical statements: receiver `$recv`, parameters `$0…`, other locals `$<type><rank>`, message strings of errors / logs masked. -/

/-- an empty ammo list is an error; both counters start at 0 (`scenRun … 0`) -/
theorem scenProviderPrologue_eq : Gen.GrpcGun.scenProviderPrologue =
    ["$uint0 := uint(len($recv.ammos))", "if $uint0 == 0 { return decoders.ErrNoAmmo }", "$uint1 := uint(0)", "$uint2 := uint(0)"] := rfl

/-- the `[next]` iterator: 0 on first use of a segment, one more on every later use, under a mutex (`drawUser`: `drawn`, `drawn + 1`) -/
theorem nextIteratorBody_eq : Gen.GrpcGun.nextIteratorBody =
    ["$recv.mx.Lock()", "defer $recv.mx.Unlock()", "$*atomic.Uint640, $bool0 := $recv.gs[$0]", "if !$bool0 { $recv.gs[$0] = &atomic.Uint64{} return 0 }", "$uint640 := $*atomic.Uint640.Add(1)", "return int($uint640)"] := rfl

/-- the gcd of all weights: `GCD(GCDM(all but the last), GCD(last two))` (`Model.goGcdm`, `C20_weights`) -/
theorem gcdmBody_eq : Gen.GrpcGun.gcdmBody =
    ["$int0 := len($0)", "if $int0 < 2 { return 0 }", "$int640 := GCD($0[$int0-2], $0[$int0-1])", "if $int0 == 2 { return $int640 }", "return GCD(GCDM($0[:$int0-1]...), $int640)"] := rfl

/-- `SpreadNames` around its loops: a single scenario once; otherwise the divisor is `GCDM` of the weights (the loops: `spreadWeight_eq`, `spreadCount_eq`; `Model.ammoList`) -/
theorem spreadNamesBody_eq : Gen.GrpcGun.spreadNamesBody =
    ["if len($0) == 0 { return nil, 0 }", "if len($0) == 1 { return map[string]int{$0[0].Name: 1}, 1 }", "$map[string]config.ScenarioConfig0 := map[string]ScenarioConfig{}", "$[]int640 := make([]int64, len($0))", "$int640 := math.GCDM($[]int640...)", "$map[string]int0 := make(map[string]int)", "$int1 := 0", "return $map[string]int0, $int1"] := rfl

/-- … and that often it is appended to the ammo list, in definition order -/
theorem scenarioSpreadLoop_eq : Gen.GrpcGun.scenarioSpreadLoop =
    "for $int5 := 0; $int5 < $int4; $int5++ { $[]*scenario.Scenario0 = append($[]*scenario.Scenario0, $*scenario.Scenario0) }" := rfl

/-- a service the reflection API lists but cannot resolve is skipped, the rest of the table is still built (`ghost=1` inputs); the key of the table is the fully qualified method name (`lookupMethod`) -/
theorem reflectServiceLoop_eq : Gen.GrpcGun.reflectServiceLoop =
    ["range $[]string0", "$*desc.ServiceDescriptor0, $error1 := $*grpcreflect.Client0.ResolveService($string0)", "if $error1 != nil { if grpcreflect.IsElementNotFoundError($error1) { continue } return nil, fmt.Errorf(\"…\", $string0, $error1) }", "$[]*desc.MethodDescriptor0 := $*desc.ServiceDescriptor0.GetMethods()", "for $int1, $*desc.MethodDescriptor0 := range $[]*desc.MethodDescriptor0 { $map[string]desc.MethodDescriptor0[$*desc.MethodDescriptor0.GetFullyQualifiedName()] = *$*desc.MethodDescriptor0 }"] := rfl

/-- `NewGun` stores the configuration unchanged (in particular `Timeout` stays what was configured) -/
theorem newGunBody_eq : Gen.GrpcGun.newGunBody =
    ["$*zap.Logger0 := answlog.Init($0.AnswLog.Path, $0.AnswLog.Enabled)", "return &Gun{Conf: $0, AnswLog: $*zap.Logger0}"] := rfl

/-- of two preprocessors defining one variable the FIRST wins (`uu` inputs: `Drv.parsePre`) -/
theorem mergeMapsBody_eq : Gen.GrpcGun.mergeMapsBody =
    ["for $string0, $any0 := range $1 { if $any1, $bool0 := $0[$string0]; !$bool0 { $0[$string0] = $any0 } }", "return $0"] := rfl

/-- `source.path` replaces `file` before the provider (and its file name) is made (`src=1` inputs) -/
theorem jsonNewProvider_eq : Gen.GrpcGun.jsonNewProvider =
    ["var $grpcjson.Provider0 Provider", "if $1.Source.Path != \"\" { $1.File = $1.Source.Path }", "$grpcjson.Provider0 = Provider{ Provider: ammo.NewProvider($0, $1.File, $grpcjson.Provider0.start), Config: $1, }", "return &$grpcjson.Provider0"] := rfl

/-- grpc/json is registered WITHOUT a default configuration: `passes` not written = 0 = unlimited (`pas=d` inputs, `C20_feed_unlimited`); both guns with their `DefaultGunConfig` -/
theorem grpcRegistrations_eq : Gen.GrpcGun.grpcRegistrations =
    [("Provider grpc/json", ""), ("Gun grpc", "grpc.DefaultGunConfig"), ("Gun grpc/scenario", "scenario.DefaultGunConfig")] := rfl


/-! ### round 4: arithmetic / control re-extracted as Lean FUNCTIONS (`gen/area_grpcgun_sym.go`) equals the model, for all inputs -/

theorem scenProvider_stops_any (len passes limit n : Nat) :
    (Gen.GrpcGun.scenProviderStops passes limit len n).any (·.1) =
      ((passes != 0 && decide (n / len ≥ passes)) || (limit != 0 && decide (n ≥ limit))) := by
  have hd : Int.tdiv (n : Int) (len : Int) = ((n / len : Nat) : Int) := rfl
  have e1 : decide ((passes : Int) ≠ 0 ∧ Int.tdiv (n : Int) (len : Int) ≥ (passes : Int)) =
      (passes != 0 && decide (n / len ≥ passes)) := by
    rw [hd]
    by_cases h : passes ≠ 0 ∧ n / len ≥ passes
    · have hi : ((passes : Int) ≠ 0 ∧ ((n / len : Nat) : Int) ≥ (passes : Int)) := ⟨by omega, by omega⟩
      rw [decide_eq_true hi]
      simp [h.1, h.2]
    · have hi : ¬ ((passes : Int) ≠ 0 ∧ ((n / len : Nat) : Int) ≥ (passes : Int)) := by
        intro hh; exact h ⟨by omega, by omega⟩
      rw [decide_eq_false hi]
      symm; simpa using h
  have e2 : decide ((limit : Int) ≠ 0 ∧ (n : Int) ≥ (limit : Int)) = (limit != 0 && decide (n ≥ limit)) := by
    by_cases h : limit ≠ 0 ∧ n ≥ limit
    · have hi : ((limit : Int) ≠ 0 ∧ (n : Int) ≥ (limit : Int)) := ⟨by omega, by omega⟩
      rw [decide_eq_true hi]
      simp [h.1, h.2]
    · have hi : ¬ ((limit : Int) ≠ 0 ∧ (n : Int) ≥ (limit : Int)) := by
        intro hh; exact h ⟨by omega, by omega⟩
      rw [decide_eq_false hi]
      symm; simpa using h
  unfold Gen.GrpcGun.scenProviderStops
  simp only [List.any_cons, List.any_nil, Bool.or_false]
  rw [e1, e2]

theorem scenProvider_index_eq (len passes limit n : Nat) :
    (Gen.GrpcGun.scenProviderIndex passes limit len n).toNat = n % len := by
  have hm : Int.tmod (n : Int) (len : Int) = ((n % len : Nat) : Int) := rfl
  unfold Gen.GrpcGun.scenProviderIndex
  rw [hm]
  exact Int.toNat_natCast _

theorem scenProvider_count_eq (len passes limit n : Nat) :
    (Gen.GrpcGun.scenProviderCount passes limit len n).toNat = n + 1 := by
  unfold Gen.GrpcGun.scenProviderCount
  omega

/-- one iteration of the generic scenario provider's loop as the source computes it IS one step of `Model.scenRun`: stop
when one of the source's checks fires, otherwise hand over ammo number `scenProviderIndex` and go on with the counter
`scenProviderCount` -/
theorem scenProvider_step_eq (len passes limit fuel n : Nat) :
    scenRun len passes limit (fuel + 1) n =
      (if (Gen.GrpcGun.scenProviderStops passes limit len n).any (·.1) then []
       else (Gen.GrpcGun.scenProviderIndex passes limit len n).toNat ::
          scenRun len passes limit fuel (Gen.GrpcGun.scenProviderCount passes limit len n).toNat) := by
  rw [scenRun, scenProvider_stops_any, scenProvider_index_eq, scenProvider_count_eq]
  by_cases hA : (passes != 0 && decide (n / len ≥ passes)) = true
  · simp only [hA, Bool.true_or, if_true]
  · have hA' : (passes != 0 && decide (n / len ≥ passes)) = false := by simpa using hA
    simp only [hA', Bool.false_or, Bool.false_eq_true, if_false]

/-- the checks are the passes check, then the limit check -/
theorem scenProvider_stops_eq (passes limit len n : Int) :
    (Gen.GrpcGun.scenProviderStops passes limit len n).map (·.2) = ["ErrPassLimit", "ErrAmmoLimit"] := rfl

/-- `calcIndex` on a written index `i ≥ 0` is the model's `fixedIndex … (.fixed i)` … -/
theorem calcIndexWritten_fixed (len i : Nat) (_h : 0 < len) :
    Gen.GrpcGun.calcIndexWritten (i : Int) (len : Int) = ((fixedIndex len (.fixed i) : Nat) : Int) := by
  have hm : Int.tmod (i : Int) (len : Int) = ((i % len : Nat) : Int) := rfl
  have hf : fixedIndex len (.fixed i) = i % len := rfl
  unfold Gen.GrpcGun.calcIndexWritten
  rw [hm, hf]
  by_cases hlt : i < len
  · have hc : ((i : Int) ≥ 0 ∧ (i : Int) < (len : Int)) := ⟨by omega, by omega⟩
    rw [if_pos hc, Nat.mod_eq_of_lt hlt]
  · have hc : ¬ ((i : Int) ≥ 0 ∧ (i : Int) < (len : Int)) := by intro h; omega
    have hn : ¬ (((i % len : Nat) : Int) < 0) := by omega
    rw [if_neg hc, if_neg hn]

/-- … and on a written negative index `-i` the model's `fixedIndex … (.neg i)` -/
theorem calcIndexWritten_neg (len i : Nat) (h : 0 < len) :
    Gen.GrpcGun.calcIndexWritten (-(i : Int)) (len : Int) = ((fixedIndex len (.neg i) : Nat) : Int) := by
  have hm : Int.tmod (-(i : Int)) (len : Int) = -((i % len : Nat) : Int) := by
    rw [Int.neg_tmod]; rfl
  have hf : fixedIndex len (.neg i) = (len - i % len) % len := rfl
  have hlt : i % len < len := Nat.mod_lt _ h
  unfold Gen.GrpcGun.calcIndexWritten
  rw [hm, hf]
  by_cases hz : i = 0
  · subst hz
    have hc : ((-((0 : Nat) : Int)) ≥ 0 ∧ (-((0 : Nat) : Int)) < (len : Int)) := ⟨by omega, by omega⟩
    rw [if_pos hc]
    simp
  · have hneg : ¬ ((-(i : Int)) ≥ 0 ∧ (-(i : Int)) < (len : Int)) := by intro hh; omega
    rw [if_neg hneg]
    by_cases hmz : i % len = 0
    · have h1 : ¬ ((-((i % len : Nat) : Int)) < 0) := by omega
      rw [if_neg h1, hmz]
      simp
    · have h1 : (-((i % len : Nat) : Int)) < 0 := by omega
      have h2 : (len - i % len) % len = len - i % len := Nat.mod_eq_of_lt (by omega)
      rw [if_pos h1, h2]
      omega

theorem calcIndexLast_eq (len : Nat) (h : 0 < len) :
    Gen.GrpcGun.calcIndexLast (len : Int) = ((fixedIndex len .last : Nat) : Int) := by
  have hf : fixedIndex len .last = len - 1 := rfl
  unfold Gen.GrpcGun.calcIndexLast
  rw [hf]
  omega

/-- `[next]`: the number the iterator returned, wrapped round the list (`drawUser`: `drawn % length`) -/
theorem calcIndexNext_eq (drawn len : Nat) (_h : 0 < len) :
    Gen.GrpcGun.calcIndexNext (drawn : Int) (len : Int) = ((drawn % len : Nat) : Int) := by
  have hm : Int.tmod (drawn : Int) (len : Int) = ((drawn % len : Nat) : Int) := rfl
  unfold Gen.GrpcGun.calcIndexNext
  rw [hm]
  by_cases hge : drawn ≥ len
  · have hc : (drawn : Int) ≥ (len : Int) := by omega
    rw [if_pos hc]
  · have hc : ¬ ((drawn : Int) ≥ (len : Int)) := by omega
    rw [if_neg hc, Nat.mod_eq_of_lt (by omega : drawn < len)]

theorem gcdLoopCond_eq (a b : Nat) : Gen.GrpcGun.gcdLoopCond a b = (decide (a > 0) && decide (b > 0)) := by
  unfold Gen.GrpcGun.gcdLoopCond
  by_cases h : a > 0 ∧ b > 0
  · have hi : ((a : Int) > 0 ∧ (b : Int) > 0) := ⟨by omega, by omega⟩
    rw [decide_eq_true hi]; simp [h.1, h.2]
  · have hi : ¬ ((a : Int) > 0 ∧ (b : Int) > 0) := by intro hh; exact h ⟨by omega, by omega⟩
    rw [decide_eq_false hi]; symm; simpa using h

theorem gcdLoopStep_eq (a b : Nat) :
    (Gen.GrpcGun.gcdLoopStep a b).1.toNat = (if a ≥ b then a % b else a) ∧
    (Gen.GrpcGun.gcdLoopStep a b).2.toNat = (if a ≥ b then b else b % a) := by
  have hm1 : Int.tmod (a : Int) (b : Int) = ((a % b : Nat) : Int) := rfl
  have hm2 : Int.tmod (b : Int) (a : Int) = ((b % a : Nat) : Int) := rfl
  unfold Gen.GrpcGun.gcdLoopStep
  rw [hm1, hm2]
  by_cases hab : a ≥ b
  · have hc : (a : Int) ≥ (b : Int) := by omega
    simp only [if_pos hc, if_pos hab]
    exact ⟨Int.toNat_natCast _, Int.toNat_natCast _⟩
  · have hc : ¬ ((a : Int) ≥ (b : Int)) := by omega
    simp only [if_neg hc, if_neg hab]
    exact ⟨Int.toNat_natCast _, Int.toNat_natCast _⟩

theorem gcdResult_eq (a b : Nat) : (Gen.GrpcGun.gcdResult a b).toNat = (if a > b then a else b) := by
  unfold Gen.GrpcGun.gcdResult
  by_cases hgt : a > b
  · have hc : (a : Int) > (b : Int) := by omega
    rw [if_pos hc, if_pos hgt]; exact Int.toNat_natCast _
  · have hc : ¬ ((a : Int) > (b : Int)) := by omega
    rw [if_neg hc, if_neg hgt]; exact Int.toNat_natCast _

/-- `math.GCD`: the model's `goGcdLoop` is the source's loop — condition, step and result -/
theorem gcdLoop_step_eq (fuel a b : Nat) :
    goGcdLoop (fuel + 1) a b =
      (if Gen.GrpcGun.gcdLoopCond a b then
         goGcdLoop fuel (Gen.GrpcGun.gcdLoopStep a b).1.toNat (Gen.GrpcGun.gcdLoopStep a b).2.toNat
       else (Gen.GrpcGun.gcdResult a b).toNat) := by
  rw [goGcdLoop, gcdLoopCond_eq, (gcdLoopStep_eq a b).1, (gcdLoopStep_eq a b).2, gcdResult_eq]
  by_cases hc : (decide (a > 0) && decide (b > 0)) = true
  · simp only [hc, if_true]
    by_cases hab : a ≥ b
    · simp only [hab, if_true]
    · simp only [hab, if_false]
  · have hc' : (decide (a > 0) && decide (b > 0)) = false := by simpa using hc
    simp only [hc', Bool.false_eq_true, if_false]

theorem gcdLoop_base_eq (a b : Nat) : goGcdLoop 0 a b = (Gen.GrpcGun.gcdResult a b).toNat := by
  rw [goGcdLoop, gcdResult_eq]

/-- `SpreadNames`: a weight 0 counts as 1 — both in the gcd AND in the division — and a scenario is listed
`weight / gcd` times (`Model.ammoList`) -/
theorem spreadWeight_eq (w : Nat) :
    Gen.GrpcGun.spreadWeightForGcd (w : Int) = (((if w == 0 then 1 else w) : Nat) : Int) ∧
    Gen.GrpcGun.spreadWeightKept (w : Int) = (((if w == 0 then 1 else w) : Nat) : Int) := by
  unfold Gen.GrpcGun.spreadWeightForGcd Gen.GrpcGun.spreadWeightKept
  by_cases h : w = 0
  · subst h; simp
  · have : ¬ ((w : Int) = 0) := by omega
    simp [h, this]

theorem spreadCount_eq (w d : Nat) : Gen.GrpcGun.spreadCount (w : Int) (d : Int) = ((w / d : Nat) : Int) := rfl

/-- the DIAL timeout is `dial_options.timeout`, one second when that is not configured: a function of the dial option
alone (the request timeout `Conf.Timeout` is `gunTimeoutNs`) -/
theorem dialTimeout_eq (conf : Int) :
    Gen.GrpcGun.dialTimeoutNs conf = (if conf ≠ 0 then conf else 1000000000) := by
  unfold Gen.GrpcGun.dialTimeoutNs
  by_cases h : conf = 0 <;> simp [h]


/-! ### round 6: the scenario's request list, the step literal, the sample tag, the pooled object, the ammo provider -/

theorem scenarioExpandLoop_eq : Gen.GrpcGun.scenarioExpandLoop =
    ["for $int0, $string0 := range $0.Requests", "$string1, $int1, $int2, $error0 := config.ParseShootName($string0)",
     "if $error0 != nil { return nil, fmt.Errorf(\"…\", $string0, $error0) }",
     "if $string1 == \"sleep\" { if len($*scenario.Scenario0.Calls) == 0 { return nil, fmt.Errorf(\"…\", $string0) } $*scenario.Scenario0.Calls[len($*scenario.Scenario0.Calls)-1].Sleep += time.Millisecond * time.Duration($int1) continue }",
     "$config.CallConfig0, $bool0 := $1[$string1]", "if !$bool0 { return nil, fmt.Errorf(\"…\", $string1) }",
     "$scenario.Call0 := convertConfigToStep($config.CallConfig0, $*mp.NextIterator0)",
     "if $int2 > 0 { $scenario.Call0.Sleep += time.Millisecond * time.Duration($int2) }",
     "if $int1 > config.MaxScenarioRequests-len($*scenario.Scenario0.Calls) { return nil, fmt.Errorf(\"…\", $string0, config.MaxScenarioRequests) }",
     "for $int3 := 0; $int3 < $int1; $int3++ { $*scenario.Scenario0.Calls = append($*scenario.Scenario0.Calls, $scenario.Call0) }"] := rfl

theorem scenarioExpandAround_eq : Gen.GrpcGun.scenarioExpandAround =
    ["$*mp.NextIterator0 := mp.NewNextIterator(time.Now().UnixNano())",
     "$*scenario.Scenario0 := &gun.Scenario{Name: $0.Name, MinWaitingTime: time.Millisecond * time.Duration($0.MinWaitingTime)}",
     "return $*scenario.Scenario0, nil"] := rfl

theorem scenarioStepPrologue_eq : Gen.GrpcGun.scenarioStepPrologue =
    ["$[]scenario.Postprocessor0 := make([]gun.Postprocessor, len($0.Postprocessors))", "copy($[]scenario.Postprocessor0, $0.Postprocessors)",
     "$[]scenario.Preprocessor0 := make([]gun.Preprocessor, len($0.Preprocessors))",
     "for $int0 := range $0.Preprocessors { $[]scenario.Preprocessor0[$int0] = $0.Preprocessors[$int0] if $grpc.IteratorIniter0, $bool0 := $[]scenario.Preprocessor0[$int0].(IteratorIniter); $bool0 { $grpc.IteratorIniter0.InitIterator($1) } }"] := rfl

/-- name, tag, call, metadata and payload of a step are the definition's fields of the same name (`Model.CallDef`) -/
theorem scenarioStepFields_eq : Gen.GrpcGun.scenarioStepFields =
    ["Call=$0.Call", "Metadata=$0.Metadata", "Name=$0.Name", "Payload=[]byte($0.Payload)", "Postprocessors=$[]scenario.Postprocessor0",
     "Preprocessors=$[]scenario.Preprocessor0", "Tag=$0.Tag"] := rfl

theorem maxScenarioRequests_eq : Gen.GrpcGun.maxScenarioRequests = Pandora.Model.C20.maxScenarioRequests := rfl

/-- the sample of a step is tagged `<scenario>.<tag of the call>` (`Model.shootStep`: `scn ++ "." ++ cd.tag`) -/
theorem scenarioSampleTag_eq : Gen.GrpcGun.scenarioSampleTag = "$0.Name + \".\" + $step.Tag" := rfl

theorem ammoInvalidateBody_eq : Gen.GrpcGun.ammoInvalidateBody = ["$recv.isInvalid = true"] := rfl
theorem ammoIsInvalidBody_eq : Gen.GrpcGun.ammoIsInvalidBody = ["return $recv.isInvalid"] := rfl
theorem ammoProviderAcquire_eq : Gen.GrpcGun.ammoProviderAcquire =
    ["$*ammo.Ammo0, $bool0 := <-$recv.Sink", "if $bool0 { $*ammo.Ammo0.SetID($recv.idCounter.Add(1)) }", "return $*ammo.Ammo0, $bool0"] := rfl
/-- `Release` puts the object back AS IT IS: the pool's objects hold earlier entries (`Model.C20Pool`: the oracle) -/
theorem ammoProviderRelease_eq : Gen.GrpcGun.ammoProviderRelease = ["$recv.Pool.Put($0)"] := rfl
/-- the sink is closed by a `defer` placed before anything that can fail -/
theorem ammoProviderRun_eq : Gen.GrpcGun.ammoProviderRun =
    ["defer $recv.Close()", "$recv.ProviderDeps = $1", "defer close($recv.Sink)", "$afero.File0, $error0 := $recv.fs.Open($recv.fileName)",
     "if $error0 != nil { return errors.Wrap($error0, \"…\") }", "defer $afero.File0.Close()", "return $recv.start($0, $afero.File0)"] := rfl

end Pandora.Bridge.C20
