/-
Bridge C20: the definitions regenerated from /repo's CURRENT source (`Pandora/Gen/GrpcGun.lean`, rewritten on every
check run) are what the hand-written model `Model/C20.lean` assumes. If the source changes any of
these, this file stops compiling and the check reports a broken obligation.
-/
import Pandora.Gen.GrpcGun
import Pandora.Model.C20
import Pandora.Model.C20Net

namespace Pandora.Bridge.C20
open Pandora.Model.C20

/-! ### timeouts (core.go `shoot`, scenario/core.go `shootStep`) -/

/-- the plain gun's timeout selection is the model's `effTimeoutMs` (configured value, 15 s when 0) -/
theorem gunTimeout_eq (ms : Nat) :
    Gen.GrpcGun.gunTimeoutNs ((ms : Int) * 1000000) = ((effTimeoutMs ms : Nat) : Int) * 1000000 := by
  unfold Gen.GrpcGun.gunTimeoutNs Gen.GrpcGun.gunDefaultTimeoutNs effTimeoutMs
  by_cases h : ms = 0
  · subst h; simp
  · have : ((ms : Int) * 1000000) ≠ 0 := by omega
    simp [h, this]

/-- so is the scenario gun's -/
theorem scenarioTimeout_eq (ms : Nat) :
    Gen.GrpcGun.scenarioTimeoutNs ((ms : Int) * 1000000) = ((effTimeoutMs ms : Nat) : Int) * 1000000 := by
  unfold Gen.GrpcGun.scenarioTimeoutNs Gen.GrpcGun.scenarioDefaultTimeoutNs effTimeoutMs
  by_cases h : ms = 0
  · subst h; simp
  · have : ((ms : Int) * 1000000) ≠ 0 := by omega
    simp [h, this]

/-- the selection reads the gun's configured timeout -/
theorem gunTimeoutConf_eq : Gen.GrpcGun.gunTimeoutConf = "g.Conf.Timeout" := rfl
theorem scenarioTimeoutConf_eq : Gen.GrpcGun.scenarioTimeoutConf = "g.gun.Conf.Timeout" := rfl

/-- the context given to `InvokeRpc` is `WithTimeout(Background, timeout)` wrapped by `NewOutgoingContext`: one
deadline PER CALL, made inside `shoot` / `shootStep` -/
theorem gunContextChain_eq : Gen.GrpcGun.gunContextChain = "WithTimeout>NewOutgoingContext>InvokeRpc" := rfl
theorem scenarioContextChain_eq : Gen.GrpcGun.scenarioContextChain = "WithTimeout>NewOutgoingContext>InvokeRpc" := rfl

/-! ### method, message, metadata of the call -/

/-- method descriptor = the reflected table at the ammo's `Call`; message = a dynamic message of that method's INPUT
type filled by `UnmarshalJSON` from the marshalled payload map; metadata = the ammo's metadata; sent through the
instance's stub -/
theorem gunMethodSource_eq : Gen.GrpcGun.gunMethodSource = "first(g.Services[ammo.Call])" := rfl
theorem gunMessageSource_eq :
    Gen.GrpcGun.gunMessageSource = "dynamic.NewMessage(first(g.Services[ammo.Call]).GetInputType())" := rfl
theorem gunMessageFill_eq : Gen.GrpcGun.gunMessageFill = "UnmarshalJSON(first(json.Marshal(ammo.Payload)))" := rfl
theorem gunMetadataSent_eq : Gen.GrpcGun.gunMetadataSent = "ammo.Metadata" := rfl
theorem gunStub_eq : Gen.GrpcGun.gunStub = "g.Stub.InvokeRpc" := rfl

/-- scenario step: the same with the step's `Call`; the message is filled from what `templ.Apply` returns for the
step's payload template; the templater renders the metadata into a CLONE of the definition's map and that clone is
what `metadata.New` gets (model variant `Variant.copy`) -/
theorem scenarioMethodSource_eq : Gen.GrpcGun.scenarioMethodSource = "first(g.gun.Services[step.Call])" := rfl
theorem scenarioMessageSource_eq :
    Gen.GrpcGun.scenarioMessageSource = "dynamic.NewMessage(first(g.gun.Services[step.Call]).GetInputType())" := rfl
theorem scenarioMessageFill_eq :
    Gen.GrpcGun.scenarioMessageFill =
      "UnmarshalJSON(first(g.templ.Apply(step.Payload, maps.Clone(step.Metadata), templateVars, ammoName, step.Name)))" := rfl
theorem scenarioMetadataRendered_eq : Gen.GrpcGun.scenarioMetadataRendered = "maps.Clone(step.Metadata)" := rfl
theorem scenarioMetadataSent_eq : Gen.GrpcGun.scenarioMetadataSent = "maps.Clone(step.Metadata)" := rfl
theorem scenarioSendsWhatItRendered_eq : Gen.GrpcGun.scenarioSendsWhatItRendered = true := rfl
theorem scenarioApplyArgs_eq : Gen.GrpcGun.scenarioApplyArgs = "step.Payload,ammoName,step.Name" := rfl
theorem scenarioStub_eq : Gen.GrpcGun.scenarioStub = "g.gun.Stub.InvokeRpc" := rfl
/-- `TextTemplater.Apply` writes the rendered values into the map it is given (which is why it must be a clone) -/
theorem templaterWrites_eq : Gen.GrpcGun.templaterWrites = "1 index assignment(s) to parameter metadata" := rfl

/-! ### template cache (templater_text.go): the model's cache is keyed by (gun, scenario, call, metadata key) -/

/-- the cache key is a struct of the four names, not a joined string: distinct (scenario, step, part, key) never share
a template (the model's `World.caches` + `Cache` index) -/
theorem templateCacheKey_eq : Gen.GrpcGun.templateCacheKey = "struct{scenario,step,part,key}" := rfl
theorem templateLookups_eq : Gen.GrpcGun.templateLookups =
    ["string(payload) | templateKey{scenario: scenarioName, step: stepName, part: partPayload}",
     "v | templateKey{scenario: scenarioName, step: stepName, part: partMetadata, key: k}"] := rfl
/-- payload and metadata templates are told apart by two different constants -/
theorem templateParts_eq : Gen.GrpcGun.templateParts = [("partPayload", "payload"), ("partMetadata", "metadata")] := rfl

/-! ### instances (`Bind`, shared_deps.go) -/

theorem bindServices_eq : Gen.GrpcGun.bindServices = "sharedDeps.services" := rfl
theorem bindStub_eq : Gen.GrpcGun.bindStub =
    "if sharedDeps.clientPool != nil then sharedDeps.clientPool.Next() else grpcdynamic.NewStub(conn)" := rfl

/-! ### endpoints (`Model/C20Net.lean`) -/

/-- `makeConnect` dials the configured target, `makeReflectionConnect` the target with the reflection port
(`dialAddr`) -/
theorem connectTarget_eq :
    Gen.GrpcGun.connectTarget = "MakeGRPCConnect($recv.Conf.Target, $recv.Conf.TLS, $recv.Conf.DialOptions)" := rfl
theorem reflectionTarget_eq : Gen.GrpcGun.reflectionTarget =
    "MakeGRPCConnect(replacePort($recv.Conf.Target, $recv.Conf.ReflectPort), $recv.Conf.TLS, $recv.Conf.DialOptions)" := rfl
/-- only the warm-up's descriptor request uses the reflection connection; the shared pool's connections and an
instance's own connection are made by `makeConnect` (`Dial.reflection` / `Dial.pool` / `Dial.own`) -/
theorem reflectDial_eq : Gen.GrpcGun.reflectDial = "result0($recv.makeReflectionConnect())" := rfl
theorem poolDial_eq : Gen.GrpcGun.poolDial = "result0($recv.makeConnect())" := rfl
theorem bindDial_eq : Gen.GrpcGun.bindDial = "result0($recv.makeConnect())" := rfl
/-- the reflection request carries `reflect_metadata`; `shoot` / `shootStep` never look at the reflection settings -/
theorem reflectContext_eq : Gen.GrpcGun.reflectContext =
    "metadata.NewOutgoingContext(context.Background(), metadata.New($recv.Conf.ReflectMetadata))" := rfl
theorem reflectSettingsInShoot_eq : Gen.GrpcGun.reflectSettingsInShoot = [] := rfl

/-- `replacePort` is the decision list the model's `replacePort` implements: port 0 ↦ host; no `:` ↦ append; last
part not an int64 ↦ append; otherwise replace the last part -/
theorem replacePortRows_eq : Gen.GrpcGun.replacePortRows =
    [("$1 == 0", "$0"),
     ("len(strings.Split($0, \":\")) == 1", "$0 + \":\" + strconv.FormatInt($1, 10)"),
     ("result1(strconv.ParseInt(strings.Split($0, \":\")[len(strings.Split($0, \":\")) - 1], 10, 64)) != nil",
      "$0 + \":\" + strconv.FormatInt($1, 10)"),
     ("otherwise", "strings.Join(strings.Split($0, \":\"), \":\")")] := rfl
theorem replacePortStores_eq : Gen.GrpcGun.replacePortStores =
    ["strings.Split($0, \":\")[len(strings.Split($0, \":\")) - 1] = strconv.FormatInt($1, 10)"] := rfl

/-- the scenario gun hands its target, reflection settings, timeout and TLS flag down to the plain gun it wraps -/
theorem scenarioConfCopies_eq : Gen.GrpcGun.scenarioConfCopies =
    [("Target", "$0.Target"), ("ReflectPort", "$0.ReflectPort"), ("ReflectMetadata", "$0.ReflectMetadata"),
     ("Timeout", "$0.Timeout"), ("TLS", "$0.TLS")] := rfl

/-! ### the templater renders EVERY metadata value -/

/-- the loop ranges over the map it was given, executes every value's template with the step's variables and stores
the result under the same key of the same map; there is no condition under which a value is skipped -/
theorem templaterLoop_eq : Gen.GrpcGun.templaterLoop =
    "range $1 | execute with $2 | store same-map-same-key=true := String() of the executed-into builder=true" := rfl
theorem templaterLoopGuards_eq : Gen.GrpcGun.templaterLoopGuards = [] := rfl
theorem templaterLoopExits_eq : Gen.GrpcGun.templaterLoopExits = [] := rfl
/-- every template (payload and metadata alike) is parsed with pandora's template functions registered -/
theorem templateParse_eq : Gen.GrpcGun.templateParse = "Funcs(templater.GetFuncs()).Parse($0)" := rfl

/-! ### configuration and ammo field names the harness writes -/

theorem gunConfigTags_timeout : ("Timeout", "timeout") ∈ Gen.GrpcGun.gunConfigTags := by decide
theorem gunConfigTags_shared : ("SharedClient", "shared-client,omitempty") ∈ Gen.GrpcGun.gunConfigTags := by decide
theorem sharedClientTags_eq :
    Gen.GrpcGun.sharedClientTags = [("ClientNumber", "client-number,omitempty"), ("Enabled", "enabled")] := rfl
theorem gunConfigTags_reflect :
    ("ReflectPort", "reflect_port") ∈ Gen.GrpcGun.gunConfigTags ∧ ("ReflectMetadata", "reflect_metadata") ∈ Gen.GrpcGun.gunConfigTags := by
  decide
theorem scenarioGunConfigTags_reflect :
    ("ReflectPort", "reflect_port") ∈ Gen.GrpcGun.scenarioGunConfigTags ∧
      ("ReflectMetadata", "reflect_metadata") ∈ Gen.GrpcGun.scenarioGunConfigTags := by
  decide
theorem scenarioGunConfigTags_timeout : ("Timeout", "timeout") ∈ Gen.GrpcGun.scenarioGunConfigTags := by decide
theorem ammoJsonTags_eq :
    Gen.GrpcGun.ammoJsonTags = [("Tag", "tag"), ("Call", "call"), ("Metadata", "metadata"), ("Payload", "payload")] := rfl

/-- grpc/json keeps payload numbers as written (`json.Number`): the model's `convert` works on the literal text -/
theorem payloadNumbers_eq : Gen.GrpcGun.payloadNumbers = "json.Number" := rfl

/-! ### the example service (examples/grpc/server) and the status codes the model uses -/

theorem serviceName_eq : Gen.GrpcGun.serviceName = svc := rfl

/-- the model's method table is the one of the generated service code (methods, request fields in field-number
order with proto name, JSON name and kind) -/
theorem methodTable_eq :
    Gen.GrpcGun.methodTable = methodTable.map fun (m, fs) => (m, fs.map fun f => (f.name, f.jsonName, kindText f.kind)) := by
  decide

/-- `ConvertGrpcStatus`: OK ↦ 200, InvalidArgument ↦ 400 (the two replies of the example service, `serverCode`) -/
theorem status_ok : Gen.GrpcGun.statusOk = 200 := rfl
theorem status_invalid_argument : Gen.GrpcGun.statusInvalidArgument = 400 := rfl

end Pandora.Bridge.C20
