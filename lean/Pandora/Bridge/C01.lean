/-
C01 bridge lemmas about the REGENERATED definitions (`Pandora.Gen.Schedule`, rewritten from /repo's current source on
every run):
* `NewLine_sem`   – what `NewLine` computes, in the closed form the theorems speak about (`cum`, `xk` of
  `Proofs/LineMath`). The proof accepts either of the two algebraically equal forms of `lineDoAt`
  (`(√(2ai+b²) − b)·(10⁹/a)` and the cancellation-free `2·10⁹·i / (√(2ai+b²) + b)`); any other arithmetic breaks it.
* `*_valid_iff`   – the predicates regenerated from the `validate` struct tags say exactly "rates ≥ 0, duration ≥ 1 ms,
  step ≥ 1, times ≥ 1".
* `start_fresh`, `next_started`, `left_fresh` – what the regenerated `doAtSchedule` methods do to the regenerated record.
-/
import Pandora.Bridge.Schedule

set_option linter.unusedTactic false
set_option linter.unreachableTactic false
set_option linter.unusedSimpArgs false
set_option linter.unnecessarySeqFocus false

namespace Pandora.Bridge.C01
open Pandora Pandora.Gen.Schedule Pandora.Bridge.Schedule Pandora.Proofs.LineMath

/-- `NewLine from to D` for `from ≠ to`: the count is the truncated integral over the whole duration; operation `k`
(as long as the integral reaches `k` at all) is at the ns-truncation of `xk`, the closed-form instant. -/
theorem NewLine_sem (f t : ℝ) (D : ℤ) (h : f ≠ t) (hc : Cfg (slope f t D) f (secs D)) :
    ∃ at_ : ℤ → ℤ, NewLine f t D = Sched.doAt D (Go.f2i (cum (slope f t D) f (secs D))) at_ ∧
      ∀ k : ℤ, 0 ≤ k → (k : ℝ) ≤ cum (slope f t D) f (secs D) →
        at_ k = Go.f2i (xk (slope f t D) f (k : ℝ) * 1000000000) := by
  -- `NewLine` and the closure builder `lineDoAt` are unfolded TOGETHER: how the slope, 2a or b² travel from the one to
  -- the other (which of them is a parameter, which is recomputed) is not part of the statement
  unfold NewLine lineDoAt
  schedule_aux_unfold
  try simp only [h, h.symm, if_false]      -- the `from == to` shortcut, if the source has one
  try simp only [f2i_cast_f2i]
  refine ⟨_, congrArg₂ (Sched.doAt D) ?_ rfl, ?_⟩
  · -- count and slope up to commutative-ring identities, or (the duration is not zero) field identities such as
    -- a·xn²/2 + b·xn = (from + to)·xn/2
    have hD : (D:ℝ) ≠ 0 := by
      have := hc.s_pos
      unfold secs at this
      intro h0; rw [h0] at this; simp at this
    congr 1
    first
    | (unfold cum slope secs; ring1)
    | (unfold cum slope secs; field_simp; ring1)
  · intro k hk0 hk
    have hk0' : (0:ℝ) ≤ (k:ℝ) := by exact_mod_cast hk0
    first
    | -- cancellation-free form with the `i == 0` guard
      (try beta_reduce
       split_ifs with h0
       · subst h0
         rw [Int.cast_zero, xk_zero hc]; simp [Go.f2i]
       · rw [← xk2_eq_xk hc hk0' hk]
         congr 1
         unfold xk2 slope secs
         ring_nf
         done)
    | -- the textbook form
      (try beta_reduce
       unfold xk slope secs
       congr 1
       ring_nf
       done)

theorem ConstConfig_valid_iff (ops : ℝ) (D : ℤ) : ConstConfig_valid ops D ↔ (0 ≤ ops ∧ 1000000 ≤ D) := by
  unfold ConstConfig_valid; schedule_timeval_unfold; first | done | (constructor <;> (intro h; simpa using h))

theorem LineConfig_valid_iff (f t : ℝ) (D : ℤ) : LineConfig_valid f t D ↔ (0 ≤ f ∧ 0 ≤ t ∧ 1000000 ≤ D) := by
  unfold LineConfig_valid; schedule_timeval_unfold; first | done | (constructor <;> (intro h; simpa using h))

theorem StepConfig_valid_iff (f t : ℝ) (s D : ℤ) :
    StepConfig_valid f t s D ↔ (0 ≤ f ∧ 0 ≤ t ∧ 1 ≤ s ∧ 1000000 ≤ D) := by
  unfold StepConfig_valid; schedule_timeval_unfold; first | done | (constructor <;> (intro h; simpa using h))

theorem OnceConfig_valid_iff (n : ℤ) : OnceConfig_valid n ↔ 1 ≤ n := by
  unfold OnceConfig_valid; schedule_timeval_unfold; first | done | (constructor <;> (intro h; simpa using h))

theorem f2i_intCast (z : ℤ) : Go.f2i ((z : ℤ) : ℝ) = z := by
  unfold Go.f2i
  split_ifs
  · exact Int.floor_intCast _
  · exact Int.ceil_intCast _

/-- a float64 number `v` given for an int64 option (`times`, `step`, a duration as a number of ns — JSON configs carry
every number as a float64) passes the two REGENERATED decode hooks of core/config iff it is an integer of the int64
range. Any spelling of "whole" (`v != math.Trunc(v)`, `math.Floor`, …) and of the range that means this passes. -/
theorem float_for_int64_iff (v : ℝ) :
    (¬ WholeNumberHook_rejects v ∧ NumberRangeHook_fits_float kindBits_Int64 v) ↔
      ∃ z : ℤ, (z : ℝ) = v ∧ -(2:ℤ) ^ 63 ≤ z ∧ z < (2:ℤ) ^ 63 := by
  unfold WholeNumberHook_rejects NumberRangeHook_fits_float kindBits_Int64
  simp only [false_or, or_false, ne_eq, not_not, not_le, not_lt, ge_iff_le, gt_iff_lt, Nat.reduceSub]
  constructor
  · rintro ⟨hw, hr⟩
    have hlo : -(2:ℝ) ^ 63 ≤ v := by first | exact hr.1 | exact hr.2
    have hhi : v < (2:ℝ) ^ 63 := by first | exact hr.2 | exact hr.1
    have key : ∀ z : ℤ, (z : ℝ) = v → ∃ z : ℤ, (z : ℝ) = v ∧ -(2:ℤ) ^ 63 ≤ z ∧ z < (2:ℤ) ^ 63 := by
      intro z hz
      refine ⟨z, hz, ?_, ?_⟩
      · have : ((-(2:ℤ) ^ 63 : ℤ) : ℝ) ≤ ((z : ℤ) : ℝ) := by rw [hz]; push_cast; linarith
        exact_mod_cast this
      · have : ((z : ℤ) : ℝ) < (((2:ℤ) ^ 63 : ℤ) : ℝ) := by rw [hz]; push_cast; linarith
        exact_mod_cast this
    first
    | exact key (Go.f2i v) hw.symm
    | exact key (Go.f2i v) hw
    | exact key ⌊v⌋ hw.symm
    | exact key ⌊v⌋ hw
  · rintro ⟨z, rfl, hlo, hhi⟩
    have h1 : -(2:ℝ) ^ 63 ≤ ((z : ℤ) : ℝ) := by
      have : ((-(2:ℤ) ^ 63 : ℤ) : ℝ) ≤ ((z : ℤ) : ℝ) := by exact_mod_cast hlo
      push_cast at this; linarith
    have h2 : ((z : ℤ) : ℝ) < (2:ℝ) ^ 63 := by
      have : ((z : ℤ) : ℝ) < (((2:ℤ) ^ 63 : ℤ) : ℝ) := by exact_mod_cast hhi
      push_cast at this; linarith
    refine ⟨?_, ?_⟩
    · first
      | rw [f2i_intCast]
      | rw [Int.floor_intCast]
    · first
      | exact ⟨h1, h2⟩
      | exact ⟨h2, h1⟩

/-- the leaf a constructor result denotes (`none` for a composite) -/
def leaf? : Sched → Option DoAtSt
  | .doAt D n f => some (NewDoAtSchedule D n f)
  | .composite _ => none

/-- state of a leaf that was started at `t0` and has answered `m` calls of `Next` -/
def startedSt (D n : ℤ) (f : ℤ → ℤ) (t0 : ℤ) (m : ℕ) : DoAtSt :=
  { duration := D, n := n, i := (m : ℤ), doAt := f, started := true, startOnce := true, start := t0 }

theorem start_fresh (D n : ℤ) (f : ℤ → ℤ) (t0 : ℤ) :
    doAtSchedule_Start (NewDoAtSchedule D n f) t0 = Except.ok ((), startedSt D n f t0 0) := by
  simp [doAtSchedule_Start, StartSync_MarkStarted, NewDoAtSchedule, startedSt]

/-- a second `Start` panics -/
theorem start_twice (D n : ℤ) (f : ℤ → ℤ) (t0 t1 : ℤ) (m : ℕ) :
    doAtSchedule_Start (startedSt D n f t0 m) t1 = Except.error "schedule is already started" := by
  simp [doAtSchedule_Start, StartSync_MarkStarted, startedSt]

theorem next_started (D n : ℤ) (f : ℤ → ℤ) (t0 now : ℤ) (m : ℕ) :
    doAtSchedule_Next now (startedSt D n f t0 m) =
      Except.ok ((if n ≤ (m : ℤ) then (t0 + D, false) else (t0 + f (m : ℤ), true)), startedSt D n f t0 (m + 1)) := by
  by_cases hm : n ≤ (m : ℤ) <;> simp [doAtSchedule_Next, startedSt, hm]

/-- a leaf that was never `Start`ed takes the clock reading of its first `Next` as its start -/
theorem next_fresh (D n : ℤ) (f : ℤ → ℤ) (now : ℤ) :
    doAtSchedule_Next now (NewDoAtSchedule D n f) =
      Except.ok ((if n ≤ 0 then (now + D, false) else (now + f 0, true)), startedSt D n f now 1) := by
  by_cases hm : n ≤ 0 <;> simp [doAtSchedule_Next, StartSync_MarkStarted, NewDoAtSchedule, startedSt, hm]

theorem left_fresh (D n : ℤ) (f : ℤ → ℤ) :
    doAtSchedule_Left (NewDoAtSchedule D n f) = Except.ok ((if n < 0 then 0 else n), NewDoAtSchedule D n f) := by
  by_cases hn : n < 0 <;> simp [doAtSchedule_Left, NewDoAtSchedule, hn]

theorem left_started (D n : ℤ) (f : ℤ → ℤ) (t0 : ℤ) (m : ℕ) :
    doAtSchedule_Left (startedSt D n f t0 m) =
      Except.ok ((if n - (m : ℤ) < 0 then 0 else n - (m : ℤ)), startedSt D n f t0 m) := by
  by_cases hn : n - (m : ℤ) < 0 <;> simp [doAtSchedule_Left, startedSt, hn]

end Pandora.Bridge.C01
