/-
Bridge C14: the definitions regenerated on every check run from the CURRENT Go source

  Pandora.Gen.ChosenCases   (area "chosencases": confutil.IsChosenCase; provider.loadAmmo's error branch and filter loop; the methods
                             Provider.Run calls with preload on / off; protoDecoder.LoadAmmo's bounds; NewProvider's
                             source switch; loop bodies of runFullScan — with the place of the chosencases filter —
                             and runPreloaded, sentinel mapping and deferred close of Run, decoderConf.Limit,
                             capacity of Sink, jsonline scanAmmos)

  Pandora.Gen.C14Hdr        (area "c14hdr", round 2: uri readLine / uripost readBlock — the header-line branch, the map an
                             entry gets, WHETHER IT IS A FRESH CLONE, the merge of the `headers` option; what Scan does
                             with the accumulator when it wraps; jsonline Scan / readArray; raw Scan + RawAmmo.Setup;
                             one iteration of util.EnrichRequestWithHeaders)

are what `Pandora.Model.C14` (and the parts of `Pandora.Model.C08` it is built from) and `Pandora.Model.C14H` say.  A change of the filter
function, of the place where a path applies it, of a loop guard or counter update, of a `select` result, of the
sentinel mapping, of the deferred close, or of the bounds of the loading pass changes the regenerated text and
breaks a lemma here; `Props/C14.lean` imports this file, so the property theorems are re-checked against the source.
-/
import Pandora.Gen.ChosenCases
import Pandora.Gen.C14Hdr
import Pandora.Model.C14
import Pandora.Model.C14Hdr

namespace Pandora.Bridge.C14
open Pandora.Model.C08 hiding fullScan httpRun runFuel run
open Pandora.Model.C14
open Pandora.Gen.ChosenCases

variable {σ α : Type}

/-! ## confutil.IsChosenCase -/

theorem isChosenCaseLoop1_eq (t : String) (all cs : List String) :
    isChosenCaseLoop1 t all cs = if cs.any (· == t) then some true else none := by
  induction cs with
  | nil => simp [isChosenCaseLoop1]
  | cons c cs ih =>
    unfold isChosenCaseLoop1
    by_cases h : c = t
    · simp [h]
    · simp [h, ih]

/-- `Model.C14.isChosen` is the regenerated `confutil.IsChosenCase` applied to the entry's tag and the chosencases list -/
theorem isChosen_eq_source (cases : List String) (e : Entry) : isChosen cases e = isChosenCase e.tag cases := by
  unfold isChosen isChosenCase
  rw [isChosenCaseLoop1_eq]
  by_cases h : cases.length = 0
  · simp [h]
  · simp only [h, if_false]
    cases cases.any (· == e.tag) <;> simp

/-! ## the preloaded path: loadAmmo keeps exactly the chosen ammo, in order, BEFORE the cyclic replay -/

theorem foldl_keep (chosen : α → Bool) (ammos acc : List α) :
    ammos.foldl (fun kept ammo => if chosen ammo then kept ++ [ammo] else kept) acc = acc ++ ammos.filter chosen := by
  induction ammos generalizing acc with
  | nil => simp
  | cons a as ih =>
    simp only [List.foldl_cons, List.filter_cons]
    cases chosen a <;> simp [ih]

theorem loadAmmoKeep_eq (chosen : α → Bool) (ammos : List α) : loadAmmoKeep chosen ammos = ammos.filter chosen := by
  unfold loadAmmoKeep; rw [foldl_keep]; simp

/-- The error branch of `Provider.loadAmmo` as regenerated (`loadAmmoFail`, whatever the order of its guards and the
nesting of its ifs) is the model's `loadFail`, as far as the property goes:
* without an error loadAmmo goes on to the filter loop (`none`), with an error it never does and never returns nil —
  a failed load ends `Run` with an error before anything is delivered;
* while the context is not cancelled the class of the decoder's error is handed on (`%w`): "no ammo" stays "no ammo";
* a cancel that ended the load is handed on as context.Canceled, cancelled context or not at the moment of the test.
(What a load error OTHER than the cancel becomes while the context is cancelled is left open beyond "an error": that
only happens with a context cancelled before `Run`, outside the property.) -/
theorem loadFail_source :
    (∀ c, loadAmmoFail c .nil = none) ∧
    (∀ c e, e ≠ .nil → (loadAmmoFail c e).isSome = true ∧ loadAmmoFail c e ≠ some .nil) ∧
    (∀ e, e ≠ .nil → loadAmmoFail false e = some (loadFail false e)) ∧
    (∀ c, loadAmmoFail c .canceled = some (loadFail c .canceled)) := by
  refine ⟨?_, ?_, ?_, ?_⟩
  · intro c; cases c <;> decide
  · intro c e; cases c <;> cases e <;> decide
  · intro e; cases e <;> decide
  · intro c; cases c <;> decide

/-- `protoDecoder.LoadAmmo` scans with Passes = 1, Limit = 0 (`Model.C08.loadAmmo` calls `scan ⟨0, 1⟩`) and only
ErrPassLimit ends it successfully -/
theorem loadBounds_eq : (⟨loadLimit, loadPasses⟩ : Bounds) = ⟨0, 1⟩ ∧ loadOkOn = ["ErrPassLimit"] := ⟨rfl, rfl⟩

/-- `runPreloaded` before its loop -/
theorem runPreloaded_pre (ammos : List α) (b : Bounds) (cancelAt : Option Nat) (fuel : Nat) :
    runPreloaded ammos b cancelAt fuel =
      match runPreloadedPre ammos.length with
      | some r => some ([], r)
      | none => preloaded ammos b cancelAt fuel 0 [] := by
  unfold runPreloaded runPreloadedPre
  by_cases h : ammos.length = 0 <;> simp [h]

/-- what `Provider.Run` makes of the result of `runPreloaded` -/
def mapped (r : Option (List α × RunRes)) : Option (List α × RunRes) := r.map fun p => (p.1, mapSentinel p.2)

/-- one iteration of `Model.C08.preloaded` is the regenerated loop body of `runPreloaded` (`k` = ammoNum; the
context is read as cancelled iff `cap` ammo have been delivered; the send succeeds) — up to the sentinel mapping
that `Provider.Run` applies to the result (regenerated `httpRunMap`), so that the order in which the two bounds
are tested is immaterial. -/
theorem preloaded_step (ammos : List α) (b : Bounds) (cancelAt : Option Nat) (fuel k pn : Nat) (out : List α) :
    mapped (preloaded ammos b cancelAt (fuel + 1) k out) =
      match runPreloadedStep b.passes b.limit ammos.length (cancelled cancelAt out.length) k pn with
      | .ret r => some (out, httpRunMap r)
      | .offer i (k', _) =>
        (match ammos[i]? with
         | some a => mapped (preloaded ammos b cancelAt fuel k' (out ++ [a]))
         | none => some (out, .errOther))
      | .tau _ => none := by
  have hmap : ∀ r, httpRunMap r = mapSentinel r := by intro r; cases r <;> simp [httpRunMap, mapSentinel]
  conv => lhs; unfold preloaded
  unfold runPreloadedStep
  by_cases hc : cancelled cancelAt out.length = true
  · simp [hc, mapped, hmap, mapSentinel]
  · simp only [hc, Bool.false_eq_true, if_false]
    -- by cases on the two bound tests, not on their order in the source
    by_cases hp : b.passes ≠ 0 ∧ b.passes ≤ k / ammos.length <;>
    by_cases hl : b.limit ≠ 0 ∧ b.limit ≤ k <;>
    cases hg : ammos[k % ammos.length]? <;>
    simp [hp, hl, hg, mapped, mapSentinel, hmap, ge_iff_le]

/-! ## the streaming path: runFullScan applies the filter to what Decoder.Scan returned -/

/-- one iteration of `Model.C14.fullScan` is the regenerated loop body of `runFullScan`: `out.length` is its
`ammoNum` (it grows exactly when an ammo is SENT, i.e. after the filter), `passNum s` is `Decoder.PassNum()`,
the filter is asked about the ammo that `Scan` just returned (and counted). -/
theorem fullScan_step (scan : σ → ScanRes × σ) (passNum : σ → Nat) (file : List α) (chosen : α → Bool)
    (limit : Nat) (cancelAt : Option Nat) (fuel : Nat) (s : σ) (out : List α) :
    fullScan scan passNum file chosen limit cancelAt (fuel + 1) s out =
      match runFullScanStep limit (cancelled cancelAt out.length) out.length (passNum s) (scan s).1
          (match (scan s).1 with
           | .ammo i => (file[i]?.map chosen).getD true
           | _ => true) with
      | .ret r => some (out, r)
      | .tau k => if k = out.length then fullScan scan passNum file chosen limit cancelAt fuel (scan s).2 out else none
      | .offer i k =>
        (match file[i]? with
         | some a =>
           if k = (out ++ [a]).length then fullScan scan passNum file chosen limit cancelAt fuel (scan s).2 (out ++ [a])
           else none
         | none => some (out, .errOther)) := by
  conv => lhs; unfold fullScan
  unfold runFullScanStep
  by_cases hc : cancelled cancelAt out.length = true
  · simp [hc]
  · simp only [hc, Bool.false_eq_true, if_false]
    by_cases hl : limit ≠ 0 ∧ limit ≤ out.length
    · have hl' : limit ≠ 0 ∧ out.length ≥ limit := hl
      simp [hl]
    · have hl' : ¬ (limit ≠ 0 ∧ out.length ≥ limit) := hl
      rw [if_neg hl, if_neg hl']
      by_cases h0 : out.length = 0 ∧ 0 < passNum s
      · have h0' : (out.length = 0 ∧ True) ∧ passNum s > 0 := ⟨⟨h0.1, trivial⟩, h0.2⟩
        simp [h0]
      · have h0' : ¬ ((out.length = 0 ∧ True) ∧ passNum s > 0) := fun h => h0 ⟨h.1.1, h.2⟩
        rw [if_neg h0, if_neg h0']
        rcases hs : scan s with ⟨sr, s'⟩
        cases sr with
        | ammo i =>
          cases hf : file[i]? with
          | none => simp [hf]
          | some a => cases hch : chosen a <;> simp [hf, hch]
        | errPass => by_cases hk : out.length = 0 <;> simp [hk]
        | errLimit => simp
        | errNoAmmo => simp
        | unexpected => simp

/-! ## the JSON-array decoder (`scanAmmos`) is `Model.C08.scanArr` with the decoder's Limit = 0 -/

theorem scanArr_eq (l passes n : Nat) (d : ArrDec) :
    scanArr ⟨decoderLimit l, passes⟩ n d =
      ((scanAmmosStep passes n d.ammoNum d.passNum).1,
       ⟨(scanAmmosStep passes n d.ammoNum d.passNum).2.1, (scanAmmosStep passes n d.ammoNum d.passNum).2.2⟩) := by
  unfold scanArr scanAmmosStep decoderLimit
  simp only [ne_eq, not_true_eq_false, false_and, if_false]
  repeat' split
  all_goals simp_all
  all_goals omega

/-! ## Provider.Run -/

/-- `Model.C14.httpRun` in terms of the regenerated pieces: which methods run for preload on / off, the decoder's
Limit, the error branch (`loadFail`, see `loadFail_source`) and the filter of `loadAmmo`, the sentinel mapping
(preloaded path only) and the deferred close. -/
theorem httpRun_source (scan : Bounds → σ → ScanRes × σ) (passNum : σ → Nat) (init : σ) (file : List α)
    (chosen : α → Bool) (preload : Bool) (b : Bounds) (cancelAt : Option Nat) (fuel : Nat) :
    runPath preload = (if preload then ["loadAmmo", "ok:runPreloaded"] else ["runFullScan"]) ∧
    httpRun scan passNum init file chosen preload b cancelAt fuel =
      if preload then
        match loadAmmo scan file fuel init [] with
        | none => none
        | some (.error e) => some ⟨[], loadFail (cancelled cancelAt 0) e, httpRunCloses⟩
        | some (.ok ammos) =>
          match runPreloaded (loadAmmoKeep chosen ammos) b cancelAt fuel with
          | none => none
          | some (out, e) => some ⟨out, httpRunMap e, httpRunCloses⟩
      else
        match fullScan (scan ⟨decoderLimit b.limit, b.passes⟩) passNum file chosen b.limit cancelAt fuel init [] with
        | none => none
        | some (out, e) => some ⟨out, e, httpRunCloses⟩ := by
  refine ⟨rfl, ?_⟩
  have hmap : ∀ r, httpRunMap r = mapSentinel r := by intro r; cases r <;> simp [httpRunMap, mapSentinel]
  unfold httpRun
  simp only [loadAmmoKeep_eq, hmap, httpRunCloses, decoderLimit]
  cases preload
  · simp only [Bool.false_eq_true, if_false]
    cases fullScan (scan ⟨0, b.passes⟩) passNum file chosen b.limit cancelAt fuel init [] with
    | none => rfl
    | some p => rfl
  · simp only [if_true]
    cases loadAmmo scan file fuel init [] with
    | none => rfl
    | some r =>
      cases r with
      | error e => rfl
      | ok ammos =>
        simp only
        cases runPreloaded (List.filter chosen ammos) b cancelAt fuel with
        | none => rfl
        | some p => rfl

/-- both paths answer a cancellation noticed in the send `select` the same way -/
theorem done_same : runPreloadedDone = runFullScanDone ∧ runFullScanDone = RunRes.canceled := ⟨rfl, rfl⟩

/-- the sink is unbuffered: an ammo counted as delivered has been received by a consumer -/
theorem sink_unbuffered : chanCapHttp = 0 := rfl

/-- NewProvider: inline `uris` (joined by a newline into one text) or the file are only two sources of the SAME
decoder, built after the switch -/
theorem source_switch (n : Nat) :
    sourceOf n = (if n > 0 then "uriReadSeekCloser" else "fileReadSeekCloser") ∧ decoderAfterSourceSwitch = true ∧
    urisSeparator = "\n" := by
  refine ⟨?_, rfl, rfl⟩
  -- `len(conf.Uris) > 0` and `len(conf.Uris) != 0` are the same test (one of the two hypotheses is unused by simp)
  set_option linter.unusedSimpArgs false in
  unfold sourceOf
  by_cases h : n > 0
  · have h' : n ≠ 0 := by omega
    simp [h, h']
  · have h' : n = 0 := by omega
    simp [h']

/-! ## round 3: the epilogue of `Run` (deferred function) -/

/-- the deferred function of `Provider.Run` as regenerated (whatever the nesting / order of its tests) is the model's
`epilogue`: the sink is closed, the source is closed exactly once when `p.Close` is set, a failing `Close` becomes the
result of a run that ended with nil and is combined with the error of a run that did not (into an error in which
errors.Is finds neither — xerrors.Errorf with two `%w`) -/
theorem epilogue_source (hasClose closeFails : Bool) (e : EV) :
    httpRunDefer hasClose closeFails e = epilogue hasClose closeFails e := by
  rcases e with ⟨r, c⟩
  cases hasClose <;> cases closeFails <;> cases r <;> cases c <;> decide

/-- the source is closed by that deferred function only (no other call of the `Close` field in package provider),
the `defer` stands before every `return` of Run, and NewProvider fills the field: every run that returns has closed
its source exactly once, after its path ended — with preload on and off -/
theorem close_sites_source : closeCallsElsewhere = 0 ∧ deferBeforeReturns = true ∧ newProviderSetsClose = true :=
  ⟨rfl, rfl, rfl⟩

/-- NewProvider's source switch with the regenerated guards of uriReadSeekCloser / fileReadSeekCloser is the model's
`sourceAccepted` (no guard asks for `Preload`: the translator reads only the decoder type and the file name in them) -/
theorem source_guards_source (k : Fmt) (nUris : Nat) (hasFile : Bool) :
    sourceAccepted k nUris hasFile =
      !(if sourceOf nUris = "uriReadSeekCloser" then urisRejected (k == .uri) hasFile else fileRejected hasFile) := by
  by_cases h : nUris > 0
  · have hs : sourceOf nUris = "uriReadSeekCloser" := by rw [(source_switch nUris).1]; simp [h]
    rw [hs]
    simp only [sourceAccepted, h, if_true]
    cases (k == Fmt.uri) <;> cases hasFile <;> decide
  · have hs : sourceOf nUris ≠ "uriReadSeekCloser" := by rw [(source_switch nUris).1]; simp [h]
    rw [if_neg hs]
    simp only [sourceAccepted, h, if_false]
    cases hasFile <;> decide

/-! ## round 2: headers (area "c14hdr") -/

section Headers
open Pandora.Model.C14H

/-- every decoder gives every ammo a header map of its OWN (a clone, defined once, on the path to `Setup`): this is
what lets the model treat the map of an entry as a value.  `false` for one of them = entries share a map that the
decoder keeps writing to. -/
theorem hdr_fresh_source :
    Gen.C14Hdr.uriEntryHeaderFresh = true ∧ Gen.C14Hdr.uripostEntryHeaderFresh = true ∧
    Gen.C14Hdr.jsonScanFresh = true ∧ Gen.C14Hdr.jsonArrayFresh = true ∧ Gen.C14Hdr.rawCommonFresh = true :=
  ⟨rfl, rfl, rfl, rfl, rfl⟩

/-- the map an entry of a uri / uripost source gets = the model's `mergeMissing` of the accumulator and the option -/
theorem hdr_entry_source (acc cfg : HMap) :
    Gen.C14Hdr.uriEntryHeader acc cfg = mergeMissing acc cfg ∧ Gen.C14Hdr.uripostEntryHeader acc cfg = mergeMissing acc cfg :=
  ⟨rfl, rfl⟩

/-- a header line is `Set` on the accumulator -/
theorem hdr_line_source (acc : HMap) (kv : String × String) :
    Gen.C14Hdr.uriHeaderLine acc kv.1 kv.2 = acc.setH kv ∧ Gen.C14Hdr.uripostHeaderLine acc kv.1 kv.2 = acc.setH kv :=
  ⟨rfl, rfl⟩

/-- Scan replaces the accumulator by an empty map when it wraps to the next pass -/
theorem hdr_wrap_source : Gen.C14Hdr.uriWrapAcc = some [] ∧ Gen.C14Hdr.uripostWrapAcc = some [] := ⟨rfl, rfl⟩

/-! the pass / limit / end-of-ammo logic of the four `Scan` functions -/

/-- uri, uripost and raw end a pass in the same way -/
theorem eof_same : Gen.C14Hdr.uripostEof = Gen.C14Hdr.uriEof ∧ Gen.C14Hdr.rawEof = Gen.C14Hdr.uriEof ∧
    Gen.C14Hdr.uripostScanLimit = Gen.C14Hdr.uriScanLimit ∧ Gen.C14Hdr.rawScanLimit = Gen.C14Hdr.uriScanLimit ∧
    Gen.C14Hdr.jsonScanLimit = Gen.C14Hdr.uriScanLimit := ⟨rfl, rfl, rfl, rfl, rfl⟩

/-- `Model.C08.scanStream`: the limit check that opens every `Scan` is the regenerated one -/
theorem scanStream_limit_source (style : Style) (b : Bounds) (n : Nat) (d : Dec) :
    scanStream style b n d =
      if Gen.C14Hdr.uriScanLimit b.limit d.ammoNum then (.errLimit, d) else scanLoop style b.passes n 2 d := by
  unfold scanStream Gen.C14Hdr.uriScanLimit
  by_cases h : b.limit ≠ 0 ∧ b.limit ≤ d.ammoNum
  · simp [h]
  · have h' : ¬ (¬ b.limit = 0 ∧ b.limit ≤ d.ammoNum) := h
    simp [h']

/-- one round of the loop of the uri / uripost / raw `Scan` of `Model.C08`, written with the regenerated end-of-file block -/
theorem scanLoop_eof_source (passes n fuel : Nat) (d : Dec) :
    scanLoop .eofCheck passes n (fuel + 1) d =
      if d.pos < n then (.ammo d.pos, { d with pos := d.pos + 1, ammoNum := d.ammoNum + 1 })
      else match Gen.C14Hdr.uriEof passes d.ammoNum d.passNum with
        | .ret r pn => (r, { d with passNum := pn })
        | .again pn => scanLoop .eofCheck passes n fuel { d with passNum := pn, pos := 0 } := by
  conv => lhs; unfold scanLoop
  unfold Gen.C14Hdr.uriEof
  by_cases h1 : d.pos < n
  · simp [h1]
  · by_cases h2 : ¬ passes = 0 ∧ passes ≤ d.passNum + 1
    · simp [h1, h2]
    · by_cases h3 : d.ammoNum = 0 <;> simp [h1, h2, h3]

/-- … and of the http/json stream decoder, with the regenerated top check and end-of-file block -/
theorem scanLoop_top_source (passes n fuel : Nat) (d : Dec) :
    scanLoop .topCheck passes n (fuel + 1) d =
      if Gen.C14Hdr.jsonTopCheck passes d.passNum then (.errPass, d)
      else if d.pos < n then (.ammo d.pos, { d with pos := d.pos + 1, ammoNum := d.ammoNum + 1 })
      else match Gen.C14Hdr.jsonEof passes d.ammoNum d.passNum with
        | .ret r pn => (r, { d with passNum := pn })
        | .again pn => scanLoop .topCheck passes n fuel { d with pos := 0, passNum := pn } := by
  conv => lhs; unfold scanLoop
  unfold Gen.C14Hdr.jsonTopCheck Gen.C14Hdr.jsonEof
  by_cases h0 : ¬ passes = 0 ∧ passes ≤ d.passNum
  · simp [h0]
  · by_cases h1 : d.pos < n
    · simp [h0, h1]
    · by_cases h3 : d.ammoNum = 0
      · cases d; simp_all
      · simp [h0, h1, h3]

/-- one round of the model's uri / uripost `Scan` WITH the accumulator, written with the regenerated pieces only -/
theorem scanLines_source (s : Source) (passes fuel : Nat) (d : LDec) :
    scanLinesLoop s passes (fuel + 1) d =
      (let acc := (s.block d.pos).foldl (fun a kv => Gen.C14Hdr.uriHeaderLine a kv.1 kv.2) d.acc
       if d.pos < s.n then
         (.ammo d.pos, { d with pos := d.pos + 1, acc := acc, ammoNum := d.ammoNum + 1,
                                 last := Gen.C14Hdr.uriEntryHeader acc (cfgMap s.ch) })
       else match Gen.C14Hdr.uriEof passes d.ammoNum d.passNum with
         | .ret r pn => (r, { d with acc := acc, passNum := pn })
         | .again pn => scanLinesLoop s passes fuel { d with passNum := pn, pos := 0, acc := Gen.C14Hdr.uriWrapAcc.getD acc }) := by
  have hacc : (s.block d.pos).foldl (fun a kv => Gen.C14Hdr.uriHeaderLine a kv.1 kv.2) d.acc
      = (s.block d.pos).foldl HMap.setH d.acc := rfl
  simp only [hacc]
  conv => lhs; unfold scanLinesLoop
  unfold Gen.C14Hdr.uriEof
  by_cases h1 : d.pos < s.n
  · simp [h1, Gen.C14Hdr.uriEntryHeader, mergeMissing]
  · by_cases h2 : ¬ passes = 0 ∧ passes ≤ d.passNum + 1
    · simp [h1, h2]
    · by_cases h3 : d.ammoNum = 0 <;> simp [h1, h2, h3, Gen.C14Hdr.uriWrapAcc]

/-- http/json: the option, the entry's own headers Set over it -/
theorem hdr_json_source (s : Source) (i : Nat) : hdrJson s i = Gen.C14Hdr.jsonEntryHeader (cfgMap s.ch) (s.block i) := rfl

/-- the request: `EnrichRequestWithHeaders` folds the regenerated step over the ammo's header map -/
theorem hdr_enrich_source (k : Fmt) (e : EntryH) :
    reqOf k e = e.hdr.foldl Gen.C14Hdr.enrichStep ((match k with | .uri | .uripost => "" | _ => entryHost), e.own) := rfl

end Headers

end Pandora.Bridge.C14
