/-
C05 bridge, round 6: the regenerated paths of the providers (`Pandora.Gen.C05Prov`, rewritten from /repo on every check:
`core/provider.(*DecodeProvider).Run`, `(*JSONAmmoDecoder).Decode`, `(*AmmoQueue).Acquire`,
`components/providers/grpc.(*Provider).Run/Acquire`) ARE what `Model/C05Prov.lean` says the providers do.

Paths are read through predicates (what is deferred before the first call that can fail, which test guards which
return), so renaming locals, reordering independent statements or wrapping with other messages does not break the
lemmas, while a change of WHEN the queue is closed, of HOW the end of the ammo is recognised (`err == io.EOF` by
identity - not by cause, not by `errors.Is`) or of WHAT `Decode` answers in which situation does.
-/
import Pandora.Gen.C05Prov
import Pandora.Model.C05Prov

namespace Pandora.Bridge.C05Prov
open Pandora.Model.C05 Pandora.Model.C05.Prov Pandora.Gen.C05Prov

/-- an event at which a function can leave or block: a call, a channel operation, a return -/
def isAction : Ev → Bool
  | .call _ | .fail _ | .ok _ | .comm _ | .ret _ | .send _ | .loop | .go _ => true
  | _ => false

/-- `defer close(<ch>)` is registered before anything that can fail, block or return -/
def closesFirst (ch : String) (p : Path) : Bool :=
  p.has (.dfr ("close:" ++ ch)) && !((p.takeWhile (· != .dfr ("close:" ++ ch))).any isAction)

/-- `DecodeProvider.Run`: on EVERY path - the failing ones too - the deferred close of the ammo queue is in place
before the source is opened -/
theorem decodeRun_closes_queue : srcDecodeRun.all (closesFirst "OutQueue") = true ∧ srcDecodeRun ≠ [] := by
  refine ⟨by decide, by decide⟩

/-- the grpc base provider: the same for `Sink`, before the ammo file is opened -/
theorem grpcRun_closes_sink : srcGrpcRun.all (closesFirst "Sink") = true ∧ srcGrpcRun ≠ [] ∧
    srcGrpcRun.any (fun p => p.has (.fail "Open")) = true := by
  refine ⟨by decide, by decide, by decide⟩

/-- the http provider (`components/providers/http/provider`): the deferred function that closes `Sink` (and then the ammo
file) is registered before the middlewares are initialised, the ammo is loaded or scanned -/
theorem httpRun_closes_sink : srcHttpRun.all (closesFirst "Sink") = true ∧ srcHttpRun ≠ [] ∧
    srcHttpRun.any (fun p => p.has (.fail "InitMiddleware")) = true ∧
    srcHttpRun.any (fun p => p.has (.fail "loadAmmo")) = true := by
  refine ⟨by decide, by decide, by decide, by decide⟩

/-- a path that only receives from `ch` and returns what it received: no other channel, no context, no call -/
def onlyReceives (ch : String) (p : Path) : Bool :=
  p.retText == "‹rx:" ++ ch ++ "#0›, ‹rx:" ++ ch ++ "#1›" &&
  p.all (fun e => match e with | .ret _ | .cond _ | .ncond _ | .set _ => true | _ => false)

/-- `Acquire` is a bare receive from that same queue (no context, no timeout): only the close lets a waiter go -/
theorem acquire_is_receive :
    srcQueueAcquire.all (onlyReceives "OutQueue") = true ∧ srcQueueAcquire ≠ [] ∧
    srcGrpcAcquire.all (onlyReceives "Sink") = true ∧ srcGrpcAcquire ≠ [] := by
  refine ⟨by decide, by decide, by decide, by decide⟩

/-- the test by which `Run` recognises the regular end of the ammo: the decoder's answer IS `io.EOF` -/
def isEofTest (t : String) : Bool := t == "‹res0› == io.EOF" || t == "io.EOF == ‹res0›"

/-- how one path through `DecodeProvider.Run` ends -/
inductive RunKind
  | openFailed | decoderFailed | eof | decodeFailed | ctxDone | sent | limit
  deriving DecidableEq, Repr

def runKind (p : Path) : Option RunKind :=
  if p.has (.fail "OpenSource") then some .openFailed
  else if p.has (.fail "newDecoder") then some .decoderFailed
  else if !p.has (.call "Decode") then (if p.has .noloop then some .limit else none)
  else
    -- the first thing that happens to the decoder's answer is the identity test against io.EOF
    match (p.after (.call "Decode")).head? with
    | some (.cond t) => if isEofTest t then some .eof else none
    | some (.ncond t) =>
      if !isEofTest t then none
      else if p.has (.fail "Decode") then some .decodeFailed
      else if !p.has (.ok "Decode") then none
      else if p.has (.comm "<-‹arg0›.Done()") then some .ctxDone
      else if p.any (fun e => match e with | .comm _ => true | _ => false) then some .sent
      else none
    | _ => none

def RunKind.returnsNil : RunKind → Bool
  | .openFailed | .decoderFailed | .decodeFailed => false
  | _ => true

/-- `DecodeProvider.Run` is the model's `decodeRun` / `runLoop`: every path is one of the seven ways, each way occurs,
a path returns nil exactly on the ways the model returns `RunRes.nil`, and every failing way wraps (never drops) the
error it got -/
theorem decodeRun_is_model :
    srcDecodeRun.all (fun p => match runKind p with
      | some k => (p.retText == "nil") == k.returnsNil && (k.returnsNil || p.retText == "WithMessage(…)")
      | none => false) = true ∧
    [RunKind.openFailed, .decoderFailed, .eof, .decodeFailed, .ctxDone, .sent, .limit].all
      (fun k => srcDecodeRun.any (fun p => runKind p == some k)) = true := by
  refine ⟨by decide, by decide⟩

/-! ### `JSONAmmoDecoder.Decode` -/

/-- the conditions of `Decode`, read on a `DecIn` -/
def evalCond (first : Bool) (t : String) (d : DecIn) : Option Bool :=
  if t == "‹recv›.iter.WhatIsNext() == jsoniter.InvalidValue && ‹recv›.iter.Error != nil && *‹recv›.readErrorPtr != nil" then
    some (d.noValue && d.readErr0.isSome)
  else if first then none
  else if t == "‹recv›.iter.Error != nil" then some d.parseFails
  else if t == "*‹recv›.readErrorPtr == io.EOF" then some (d.readErr1 == some true)
  else if t == "*‹recv›.readErrorPtr != nil" then some d.readErr1.isSome
  else none

/-- does `d` take path `p` (`first`: `ReadVal` has not been called yet) -/
def takes (d : DecIn) : Bool → Path → Option Bool
  | _, [] => some true
  | first, .cond t :: r => match evalCond first t d with
    | some b => if b then takes d first r else some false
    | none => none
  | first, .ncond t :: r => match evalCond first t d with
    | some b => if b then some false else takes d first r
    | none => none
  | _, .call "ReadVal" :: r => takes d false r
  | first, _ :: r => takes d first r

/-- what a path returns, as a `DecRes` -/
def pathRes (d : DecIn) (p : Path) : Option DecRes :=
  let afterRead := p.has (.call "ReadVal")
  match p.retText with
  | "nil" => some .ok
  | "*‹recv›.readErrorPtr" => some (errOfPtr (if afterRead then d.readErr1 else d.readErr0))
  | "Wrap(…)" => if p.has (.call "Wrap(ammo is truncated)") then some .unexpectedEof else none
  | "‹recv›.iter.Error" => some .parseErr
  | _ => none

def allDecIn : List DecIn :=
  [false, true].flatMap fun nv => [none, some true, some false].flatMap fun r0 =>
  [false, true].flatMap fun pf => [none, some true, some false].map fun r1 => ⟨nv, r0, pf, r1⟩

theorem allDecIn_complete (d : DecIn) : d ∈ allDecIn := by
  obtain ⟨nv, r0, pf, r1⟩ := d
  cases nv <;> cases pf <;> rcases r0 with _ | (_ | _) <;> rcases r1 with _ | (_ | _) <;> decide

set_option maxRecDepth 200000 in
/-- `Decode` is the model's `jsonDecode`: in every situation exactly one regenerated path is taken, and it returns what
the model says (`io.EOF` itself only when no value starts and the source has ended; a value cut short by the end of the
source is `ammo is truncated`, never `io.EOF`) -/
theorem jsonDecode_is_model_table :
    allDecIn.all (fun d =>
      (srcJsonDecode.filter (fun p => takes d true p == some true)).map (pathRes d) == [some (jsonDecode d)] &&
      srcJsonDecode.all (fun p => (takes d true p).isSome)) = true := by
  decide

theorem jsonDecode_is_model (d : DecIn) :
    (srcJsonDecode.filter (fun p => takes d true p == some true)).map (pathRes d) = [some (jsonDecode d)] := by
  have h := List.all_eq_true.1 jsonDecode_is_model_table d (allDecIn_complete d)
  simp only [Bool.and_eq_true, beq_iff_eq] at h
  exact h.1

end Pandora.Bridge.C05Prov
