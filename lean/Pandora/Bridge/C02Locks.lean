/-
C02 — bridge for the regenerated lock facts of `compositeSchedule` (`Pandora/Gen/C02Locks.lean`, re-extracted from
core/schedule/composite.go on every check): the accesses of Start/Next/Left/startNext and what is held of `rwMu`
at each of them are exactly the ones the concurrent model (`Model/C02Par.lean`) is built on, and they satisfy the
discipline that makes the model's sections atomic:

  * every call of a child (`s.scheds[0].Next/Left/Start`) and every read of `s.scheds` / `s.leftAfter` happens
    under the read or the write lock;  every write of them, and `startNext`, under the write lock;
  * the only things done with no lock held are the atomic `started` flag, the scheduling points of the harness
    (`verifhook.At`, exactly the two points before `Lock`), the retries `return s.Next()` / `return s.Left()`
    and the panic of `Left` after `Unlock`.

A change of composite.go that moves an access out of its critical section, adds a method or a scheduling point,
changes this table and breaks `rows_eq`; reordering independent statements inside one section does not.
-/
import Pandora.Gen.C02Locks

namespace Pandora.Bridge.C02Locks
open Pandora.Go

def expected : List C02Row := [
  ⟨"Left", .callStartNext, .W⟩,
  ⟨"Left", .childLeft, .R⟩,
  ⟨"Left", .childNext, .W⟩,
  ⟨"Left", .hook "composite.Left:before-lock", .none⟩,
  ⟨"Left", .panic, .none⟩,
  ⟨"Left", .readLeftAfter, .R⟩,
  ⟨"Left", .readScheds, .R⟩,
  ⟨"Left", .readScheds, .W⟩,
  ⟨"Left", .retry, .none⟩,
  ⟨"Left", .startedLoad, .none⟩,
  ⟨"Next", .callStartNext, .W⟩,
  ⟨"Next", .childNext, .R⟩,
  ⟨"Next", .childNext, .W⟩,
  ⟨"Next", .hook "composite.Next:before-lock", .none⟩,
  ⟨"Next", .readScheds, .R⟩,
  ⟨"Next", .readScheds, .W⟩,
  ⟨"Next", .retry, .none⟩,
  ⟨"Next", .startedStore, .none⟩,
  ⟨"Start", .childStart, .W⟩,
  ⟨"Start", .readScheds, .W⟩,
  ⟨"Start", .startedStore, .W⟩,
  ⟨"startNext", .childStart, .caller⟩,
  ⟨"startNext", .readLeftAfter, .caller⟩,
  ⟨"startNext", .readScheds, .caller⟩,
  ⟨"startNext", .writeLeftAfter, .caller⟩,
  ⟨"startNext", .writeScheds, .caller⟩
]

/-- the discipline -/
def rowOK (r : C02Row) : Bool :=
  match r.acc, r.lock with
  | .childNext, .R | .childNext, .W | .childLeft, .R | .childLeft, .W => true
  | .childStart, .W | .childStart, .caller => true
  | .readScheds, .R | .readScheds, .W | .readScheds, .caller => true
  | .readLeftAfter, .R | .readLeftAfter, .W | .readLeftAfter, .caller => true
  | .writeScheds, .W | .writeScheds, .caller | .writeLeftAfter, .W | .writeLeftAfter, .caller => true
  | .startedStore, _ | .startedLoad, _ => true
  | .hook _, .none | .retry, .none | .panic, .none => true
  | .callStartNext, .W => true
  | _, _ => false

/-- the source says what the model assumes -/
theorem rows_eq : Pandora.Gen.C02Locks.rows = expected := rfl

theorem expected_ok : ∀ r ∈ expected, rowOK r = true := by decide

/-- the harness can stop a caller exactly at the two points the model calls `nextW` / `leftW` -/
theorem hooks : (expected.filterMap fun r => match r.acc with | .hook n => some (r.fn, n) | _ => none) =
    [("Left", "composite.Left:before-lock"), ("Next", "composite.Next:before-lock")] := by decide

end Pandora.Bridge.C02Locks
