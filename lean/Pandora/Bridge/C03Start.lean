/-
C03 — bridge for the goroutine that starts the instances and for what a pool launches: REGENERATED from the current
core/engine/engine.go and core/plugin/constructor.go (`Pandora.Gen.InstLoop.startPre/startLoop/startPost`,
`runNewInstanceRunsThenCloses`, `runAsync…`, `factoryPerCall`).

* `start_exec_eq` — executing the regenerated statements of `startInstances` is the model's `starter`, for EVERY sequence
  of answers of `waiter.Wait(startCtx)` and both outcomes of the creation of the first instance (logging, renamed locals,
  named / positional fields of the run result, `if !waiter.Wait(…)` instead of `ok := …; if !ok`, `started++` before or
  after the `go` statement (post statement or inside the loop body) do not matter; a goroutine
  launched without `started++`, a second `Wait` in the loop body, an id other than the counter … do).
* `run_result_after_run` — the value an instance's goroutine sends is what `Run` of that instance returned.
* `runAsync_eq` — the pool launches three goroutines; each sends exactly one result on its own channel: the provider's
  and the aggregator's `Run` (with the run context), `startInstances` (start context, run context, the run-result channel);
  the start context is derived from the run context, the run context from the pool's.  (The buffer sizes of the channels
  are regenerated too — `runAsyncChannels`, `runAsyncRunResBuf` — but nothing depends on them: every result is received.)
* `callback_left`, `callback_next` — the finish-callback wrapper around the shared profile (core/coreutil/schedule.go)
  returns what the profile answered and fires the callback exactly on `Left() = 0` / `Next()` not ok.
* `engineRun_eq` — the engine's `Run` awaits as many pool results as there are pools and has no successful return inside
  that loop (an engine with several pools "ends normally" only when every pool has).
* `factory_per_call` — the factory the plugin registry builds for a registered constructor (`NewRPSSchedule`, `NewGun` of a
  decoded pool) decodes the plugin's config AND calls the constructor at every call: with rps-per-instance every
  instance gets a schedule of its own (`Model.C03.step (.start i)`: `own[i] := tokens`).
-/
import Pandora.Gen.InstLoop
import Pandora.Model.C03Start
import Pandora.Proofs.C03Start

namespace Pandora.Bridge.C03Start
open Pandora.Model.C03Start

/-- up to the order of counting an instance and launching its goroutine (`Model.C03Start.norm`) the regenerated lists
are the model's -/
theorem start_lists_eq :
    norm Gen.InstLoop.startPre = norm startPre ∧ norm Gen.InstLoop.startLoop = norm startLoop ∧
    norm Gen.InstLoop.startPost = norm startPost := by
  decide

theorem start_exec_eq (answers : List Bool) (firstOk : Bool) :
    execStart Gen.InstLoop.startPre Gen.InstLoop.startLoop Gen.InstLoop.startPost answers firstOk = starter answers firstOk := by
  rw [← Pandora.Proofs.C03Start.norm_start, start_lists_eq.1, start_lists_eq.2.1, start_lists_eq.2.2,
    Pandora.Proofs.C03Start.norm_start]
  rfl

theorem run_result_after_run : Gen.InstLoop.runNewInstanceRunsThenCloses = true := rfl

theorem runAsync_eq :
    Gen.InstLoop.runAsyncGoroutines =
      ["chan:aggregatorErr <- Aggregator.Run(ctx:run)",
       "chan:providerErr <- Provider.Run(ctx:run)",
       "chan:startRes <- startResult{startInstances(ctx:instanceStart, ctx:run, chan:runRes)}"] ∧
    Gen.InstLoop.runAsyncContexts = ["instanceStart = WithCancel(ctx:run)", "run = WithCancel(ctx:pool)"] :=
  ⟨rfl, rfl⟩

/-- the wrapper the engine puts around the SHARED profile passes the answers of the profile on unchanged (the model's
`chk` / `tokOk` / `tokEnd` are the profile's own) and fires the finish callback exactly when it tells an instance that
the profile is finished -/
theorem callback_left (left : Int) (h : 0 ≤ left) :
    Gen.InstLoop.callbackLeft left = (left, decide (left = 0)) := by
  unfold Gen.InstLoop.callbackLeft
  (repeat' split) <;> simp_all <;> omega

theorem callback_next (ok : Bool) : Gen.InstLoop.callbackNext ok = (ok, !ok) := by
  unfold Gen.InstLoop.callbackNext
  cases ok <;> simp

/-- `Engine.Run` awaits one result per pool and never reports success from inside that loop: it returns nil only after
the loop, i.e. after every pool has ended (successfully) -/
theorem engineRun_eq :
    Gen.InstLoop.engineRunLoop = "for $i := 0; $i < len($.config.Pools); $i++" ∧
    Gen.InstLoop.engineRunReturnsInLoop.all (fun r => r != "return nil") = true ∧
    Gen.InstLoop.engineRunAfterLoop = "return nil" := by decide

theorem factory_per_call : Gen.InstLoop.factoryPerCall = ["getMaybeConf", "newPlugin.Call"] := rfl

end Pandora.Bridge.C03Start
