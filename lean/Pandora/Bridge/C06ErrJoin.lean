/-
Bridge lemmas for C06 (vii): what `lib/errutil.Join` and the deferred functions of `dataSinkAggregator.Run` are NOW
(regenerated into `Pandora.Gen.AggQ` by gen/area_aggq_errs.go) is what `Model.C06ErrJoin` computes with.
* `errutilJoinCases` — Join as (condition, value) cases over its two parameters, spelled canonically (`a`, `b`;
  switch or if-chain, whatever the parameters are called) — decodes to `codeJoin`;
* `encoderDeferJoins` — per deferred function, in order of registration, the methods whose results are joined into
  the named result; deferred functions run in reverse order of registration — decodes to `codeOrder`
  (encoder Close/Flush, then sink Close, then the drop count). A guard on the named result or a plain assignment
  to it inside a deferred function shows up as an entry that does not decode.
-/
import Pandora.Gen.AggQ
import Pandora.Model.C06ErrJoin

namespace Pandora.Bridge.ErrJoin
open Pandora.Model.C06ErrJoin

def decodeCond : String → Option Cond
  | "a=nil" => some .firstNil
  | "b=nil" => some .secondNil
  | "default" => some .always
  | _ => none

def decodeRet : String → Option Ret
  | "a" => some .first
  | "b" => some .second
  | "append(a,b)" => some .both
  | _ => none

def decodeTable (l : List (String × String)) : Option JoinTable :=
  l.mapM fun cr => do pure ((← decodeCond cr.1), (← decodeRet cr.2))

def closerClose : String := "(io.Closer).Close"
def droppedErrName : String := "(*github.com/yandex/pandora/core/aggregator.Reporter).DroppedErr"
def encoderFlush : String := "(github.com/yandex/pandora/core/aggregator.SampleEncoder).Flush"

/-- one deferred function: the sink's Close and the drop count (in that order), or the encoder's final
Close-or-Flush (one joined value: whichever the encoder supports) -/
def decodeDefer (l : List String) : Option (List Joined) :=
  if l = [closerClose, droppedErrName] then some [.sinkClose, .dropped]
  else if l = [closerClose, encoderFlush] then some [.encFinal]
  else none

/-- execution order: last registered first -/
def execOrder (defers : List (List String)) : Option (List Joined) :=
  (defers.reverse.mapM decodeDefer).map List.flatten

/-- `errutil.Join` is the table the model evaluates -/
theorem join_table : decodeTable Gen.AggQ.errutilJoinCases = some codeJoin := by decide

/-- the deferred functions join: encoder's final Close/Flush, the sink's Close, the drop count -/
theorem defer_order : execOrder Gen.AggQ.encoderDeferJoins = some codeOrder := by decide

end Pandora.Bridge.ErrJoin
