/-
C05 bridge, round 4: the regenerated paths of `coreutil.Waiter` and `callbackOnFinishSchedule`
(`Pandora.Gen.C05Wait`, rewritten from /repo on every check) ARE what `Model.C05.Inst` says the waiter does.

The lemmas read a path through predicates (`has`, return text, what precedes what) and compare SETS of outcomes, so
that reordering independent statements, renaming locals / receivers, or changing how `overdueDuration` and the timer
are kept does not break them, while a change of WHAT is returned WHEN (the context no longer looked at before a token
is taken, `Left() <= 1`, a sleep that cannot be interrupted, a finish callback that fires early or never) does.
-/
import Pandora.Gen.C05Wait
import Pandora.Model.C05Inst

namespace Pandora.Bridge.C05Wait
open Pandora.Model.C05 Pandora.Model.C05.Inst Pandora.Gen.C05Wait

/-- `case <-ctx.Done()` (the context is the first parameter of all three methods) -/
def isCtxComm (e : Ev) : Bool := e == .comm "<-‹arg0›.Done()"

/-- `case <-w.timer.C` -/
def isTimerComm (e : Ev) : Bool := e == .comm "<-‹recv›.timer.C"

/-- the events of a path before its first call of `f` -/
def before (p : Path) (f : String) : Path := p.takeWhile (· != .call f)

/-- one regenerated path through `Wait`, read as a way through the model's `waitOut` -/
def waitKind (p : Path) : Option WaitOut :=
  if !p.has (.call "Next") then
    (if p.head?.map isCtxComm == some true then some .ctxAtEntry else none)
  else if !(before p "Next").has (.comm "default") || (before p "Next").any isCtxComm then none
  else if p.has (.ncond "‹res0›") then some .noToken
  else if !p.has (.cond "‹res0›") then none
  else
    let rest := p.after (.call "Next")
    if rest.any isTimerComm then (if rest.any isCtxComm then none else some .timer)
    else if rest.any isCtxComm then some .ctxAsleep
    else some .due

def boolText (b : Bool) : String := if b then "true" else "false"

/-- `Wait`: every path is one of the five ways of the model, each way occurs, and the path returns what the model says
`Wait` returns; the context is looked at BEFORE the schedule is asked (a done context never costs a token), and a
token is taken exactly on the ways the model counts one -/
theorem wait_is_model :
    wait.all (fun p => match waitKind p with
      | some k => p.retText == boolText k.ok && (p.has (.cond "‹res0›") == k.takes)
      | none => false) = true ∧
    [WaitOut.ctxAtEntry, .noToken, .due, .timer, .ctxAsleep].all (fun k => wait.any (fun p => waitKind p == some k)) = true := by
  decide

/-- `IsFinished`: the context first (done → finished), else `Left() == 0` - the model's `isFinished` -/
theorem isFinished_is_model :
    Pandora.Gen.C05Wait.isFinished.all (fun p =>
      (p.head?.map isCtxComm == some true && p.retText == "true" && !p.has (.call "Left")) ||
      (p.head? == some (.comm "default") && p.has (.call "Left") && p.retText == "‹recv›.sched.Left() == 0")) = true ∧
    Pandora.Gen.C05Wait.isFinished.any (fun p => p.head?.map isCtxComm == some true) = true ∧
    Pandora.Gen.C05Wait.isFinished.any (fun p => p.has (.call "Left")) = true ∧
    (∀ c l, Inst.isFinished c l = (c || l == 0)) := by
  refine ⟨by decide, by decide, by decide, fun _ _ => rfl⟩

/-- `IsSlowDown`: never once the context is done, else the overdue reading against `MaxOverdueDuration` -/
theorem isSlowDown_is_model :
    Pandora.Gen.C05Wait.isSlowDown.all (fun p =>
      (p.head?.map isCtxComm == some true && p.retText == "false") ||
      (p.head? == some (.comm "default") && p.retText == "‹recv›.overdueDuration >= MaxOverdueDuration")) = true ∧
    Pandora.Gen.C05Wait.isSlowDown.length = 2 ∧
    (∀ d o, Inst.isSlowDown true d o = false) := by
  refine ⟨by decide, by decide, fun _ _ => rfl⟩

/-- the finish callback of the shared schedule (`buildNewInstanceSchedule` wraps it in `callbackOnFinishSchedule`; the
model's choice `rpsFinished`): `onFinish` runs, through the `sync.Once`, exactly on the paths on which the wrapped
schedule says it is finished - `Next()` !ok, `Left() == 0` - and what the wrapped schedule said is what is returned -/
theorem finish_callback :
    cbNext.all (fun p => p.head? == some (.call "Next") &&
      (p.has (.call "Do(‹recv›.onFinish)") == p.has (.ncond "‹res1›")) &&
      (p.has (.ncond "‹res1›") != p.has (.cond "‹res1›")) && p.retText == "") = true ∧
    cbNext.any (fun p => p.has (.call "Do(‹recv›.onFinish)")) = true ∧
    cbLeft.all (fun p => p.head? == some (.call "Left") &&
      (p.has (.call "Do(‹recv›.onFinish)") == p.has (.cond "‹Left› == 0")) &&
      (p.has (.ncond "‹Left› == 0") != p.has (.cond "‹Left› == 0")) && p.retText == "‹Left›") = true ∧
    cbLeft.any (fun p => p.has (.call "Do(‹recv›.onFinish)")) = true := by
  decide

end Pandora.Bridge.C05Wait
