/-
Bridge lemmas for C12: the definitions REGENERATED from the current /repo source (`Pandora.Gen.Startup`, rewritten by
`gen -area startup` on every check) compute what the hand-written sequential expectations of `Pandora.Model.C12` compute.
The property theorems are stated about the model; a change of `startInstances`, `runNewInstance`, `newInstance`, the
cancel wiring in `runAsync` / `awaitRun` / `buildNewInstanceSchedule`, `callbackOnFinishSchedule`, `Waiter.IsFinished` or
the loop of `instance.Run` that is not an identity breaks a lemma here.  Core Lean only.
-/
import Pandora.Gen.Startup
import Pandora.Model.C12
import Pandora.Model.C12Pool

namespace Pandora.Bridge.C12Startup
open Pandora.Go.C12 Pandora.Model.C12

/-- the start context is a child of the run context: cancelling the run cancels instance start, cancelling instance
start (out of ammo, shared RPS profile finished) never cancels the run -/
theorem startCtxParent_eq : Gen.Startup.startCtxParent = Ctx.run := rfl

/-- `startInstances(startCtx, runCtx, …)` is called with (start context, run context) -/
theorem startInstancesCtxArgs_eq : Gen.Startup.startInstancesCtxArgs = [Ctx.start, Ctx.run] := rfl

/-- the finish callback of the shared RPS schedule is given the start context and ITS cancel function -/
theorem scheduleBuilderArgs_eq : Gen.Startup.scheduleBuilderArgs = (Ctx.start, Ctx.start) := rfl

/-- the startup Waiter draws from the pool's startup schedule -/
theorem waiterSchedule_eq : Gen.Startup.waiterSchedule = "p.StartupSchedule" := rfl

theorem startInstances_loop_eq (f : Bool) (acts : List Act) (st : Int) (ws : List (Ctx → Bool)) :
    Gen.Startup.startInstances_loop f acts st .none ws = startSeqLoop acts st ws := by
  induction ws generalizing acts st with
  | nil => rfl
  | cons w ws ih =>
    simp only [Gen.Startup.startInstances_loop, startSeqLoop]
    by_cases hw : w Ctx.start = true
    · simp only [hw, if_true]; exact ih _ _
    · simp [hw]

/-- the regenerated `startInstances` is the sequential program `startSeq` the transition system refines -/
theorem startInstances_eq (f : Bool) (ws : List (Ctx → Bool)) : Gen.Startup.startInstances f ws = startSeq f ws := by
  cases ws with
  | nil => rfl
  | cons w ws =>
    simp only [Gen.Startup.startInstances, startSeq]
    by_cases hw : w Ctx.start = true
    · cases f
      · simp [hw]
      · simp only [hw, Bool.not_true, Bool.false_eq_true, if_false, if_true, bne_self_eq_false, List.nil_append]
        exact startInstances_loop_eq _ _ _ _
    · simp [hw]

/-- `runNewInstance` hands its context and its id on unchanged (to `newInstance` and to `instance.Run`) -/
theorem runNewInstance_eq (c : Ctx) (id : Int) : Gen.Startup.runNewInstance c id = (c, id, c) := rfl

/-- `newInstance` puts its context and its id into `GunDeps` (what the gun's `Bind` sees) and into the instance -/
theorem newInstance_eq (c : Ctx) (id : Int) : Gen.Startup.newInstance c id = (c, id, id) := rfl

/-- result of an instance awaited: an out-of-ammo result cancels the START context while instance start is still going
on, and does nothing but that; any other result never cancels a context: it is either ignored (the run context's own
error) or reported (the pool fails, which cancels the run).  Stated as properties, so that an equivalent rewrite of the
`if` chain (e.g. dropping the redundant `isStartFinished` guard) does not break it. -/
theorem onInstanceResult_spec (sf : Bool) (ce : Ctx → Bool) :
    Gen.Startup.onInstanceResult true false ce = [PoolAct.cancel Ctx.start] ∧
    (∀ a ∈ Gen.Startup.onInstanceResult true sf ce, a = PoolAct.cancel Ctx.start) ∧
    (∀ a ∈ Gen.Startup.onInstanceResult false sf ce, a = PoolAct.reportErr) ∧
    (ce Ctx.run = true → Gen.Startup.onInstanceResult false sf ce = []) ∧
    (ce Ctx.run = false → Gen.Startup.onInstanceResult false sf ce = [PoolAct.reportErr]) := by
  unfold Gen.Startup.onInstanceResult
  cases sf <;> cases h : ce Ctx.run <;> simp [h]

/-- the run context is cancelled by the pool itself only when all instances have finished -/
theorem runCancelCallers_eq : Gen.Startup.runCancelCallers = ["checkAllInstancesAreFinished"] := rfl

/-- a finish callback is installed exactly for a shared RPS schedule -/
theorem callbackInstalled_eq (pi : Bool) : Gen.Startup.callbackInstalled pi = !pi := by
  cases pi <;> rfl

/-- the callback cancels the START context (once, unless it is already done) and nothing else -/
theorem onSharedRpsFinish_eq (cd : Ctx → Bool) :
    Gen.Startup.onSharedRpsFinish cd = if cd Ctx.start then [] else [PoolAct.cancel Ctx.start] := by
  unfold Gen.Startup.onSharedRpsFinish
  cases cd Ctx.start <;> rfl

/-- the callback runs when `Next()` has no token / `Left()` is 0 — before the caller learns it -/
theorem callbackOnNext_eq (ok : Bool) : Gen.Startup.callbackOnNext ok = !ok := rfl
theorem callbackOnLeft_eq (left : Int) : Gen.Startup.callbackOnLeft left = (left == 0) := rfl

theorem IsFinished_eq (cd : Bool) (left : Int) : Gen.Startup.IsFinished cd left = instFinished cd left := rfl

theorem runBody_eq (a w : Bool) : Gen.Startup.runBody a w = instBody a w := rfl

/-- the regenerated loop of `instance.Run` is the model's `instRun` -/
theorem instanceRun_eq (its : List RunIter) : Gen.Startup.instanceRun its = instRun its := by
  induction its with
  | nil => rfl
  | cons it rest ih =>
    simp only [Gen.Startup.instanceRun, instRun, IsFinished_eq, runBody_eq, ih]

theorem recoversShootPanic_eq : Gen.Startup.recoversShootPanic = true := rfl

/-! ### the counters of the await loop (pool layer, Model/C12Pool) -/

/-- `checkAllInstancesAreFinished` goes on exactly when instance start has finished and at least as many results were
awaited as instances were started (stated semantically: `a >= b` or `b <= a`, with or without the local variable) -/
theorem allFinished_eq (a : Await) : Gen.Startup.allFinished a = allFinished a := by
  rcases a with ⟨sf, st, aw⟩
  cases sf <;> simp [Gen.Startup.allFinished, allFinished]

/-- …and then cancels the RUN context (the only place where the pool does so by itself, `runCancelCallers_eq`) -/
theorem onAllFinished_eq : Gen.Startup.onAllFinished = [PoolAct.cancel Ctx.run] := rfl

/-- the start result: instance start counts as finished, `startedInstances` is what `startInstances` returned -/
theorem onStartResAwait_eq (a : Await) (n : Int) : Gen.Startup.onStartResAwait a n = onStartResAwait a n := rfl

/-- an error of `startInstances` that is not the start context's own (a creation error) fails the pool -/
theorem onStartResult_eq (ce : Ctx → Bool) : Gen.Startup.onStartResult ce = onStartResult ce := by
  unfold Gen.Startup.onStartResult onStartResult
  cases ce Ctx.start <;> rfl

/-- a run result: one more awaited -/
theorem onRunResAwait_eq (a : Await) : Gen.Startup.onRunResAwait a = onRunResAwait a := rfl

/-- both cases re-check "all finished" after updating their counters ("there is a race between run and start results") -/
theorem checksAll_eq : Gen.Startup.startResChecksAll = true ∧ Gen.Startup.runResChecksAll = true := ⟨rfl, rfl⟩

/-- the await loop of `Engine.Run` -/
theorem engineRun_eq (n i : Int) (evs : List EngEv) : Gen.Startup.engineRun n i evs = engSeq n i evs := by
  induction evs generalizing i with
  | nil => simp [Gen.Startup.engineRun, engSeq]
  | cons ev rest ih =>
    cases ev with
    | result errNil => simp [Gen.Startup.engineRun, engSeq, ih]
    | ctxDone => simp [Gen.Startup.engineRun, engSeq]

/-- what the pool layer does with a run result is what the regenerated case does — up to the redundant
`isStartFinished` guard (cancelling an already finished instance start changes nothing) -/
theorem onInstanceResult_model (a sf : Bool) (ce : Ctx → Bool) :
    Gen.Startup.onInstanceResult a sf ce = onRunResult a sf ce ∨
      (a = true ∧ sf = true ∧ Gen.Startup.onInstanceResult a sf ce = [PoolAct.cancel Ctx.start]) := by
  unfold Gen.Startup.onInstanceResult onRunResult
  cases a <;> cases sf <;> cases h : ce Ctx.run <;> simp [h]

/-! ### round 3: how a pool fails, how its `Run` returns -/

/-- the results of `Provider.Run` and `Aggregator.Run`: an error that is not the run context's own fails the pool, nothing else
happens (in particular a provider or aggregator that RETURNS — without error, or with the context error after the run was
cancelled — stops nothing) -/
theorem onOtherResult_eq (ce : Ctx → Bool) :
    Gen.Startup.onProviderResult ce = onOtherResult ce ∧ Gen.Startup.onAggregatorResult ce = onOtherResult ce := by
  unfold Gen.Startup.onProviderResult Gen.Startup.onAggregatorResult onOtherResult
  cases ce Ctx.run <;> exact ⟨rfl, rfl⟩

/-- `(*instancePool).Run` returns nil only when the channel of the await loop was CLOSED (everything awaited), the reported error
when one was sent, and its context's error when that context is done -/
theorem poolRunSelect_eq :
    Gen.Startup.poolRunSelect .ctxDone = .ctxErr ∧
      ∀ ok, Gen.Startup.poolRunSelect (.awaitErr ok) = if ok then .reported else .nil :=
  ⟨rfl, fun _ => rfl⟩

/-- returning cancels the pool context, parent of the run context; the engine's return cancels every pool -/
theorem returnCancels_eq : Gen.Startup.poolRunCancelsOnReturn = true ∧ Gen.Startup.runCtxIsChildOfPoolCtx = true ∧
    Gen.Startup.engineReturnCancelsPools = true := ⟨rfl, rfl, rfl⟩

/-- a reported error is handed to the pool's `Run`, or given up only when the pool context is done (order of the `select`
cases is irrelevant) -/
theorem onErrAwaitedCases_eq (x : ErrCase) : x ∈ Gen.Startup.onErrAwaitedCases ↔ (x = .send ∨ x = .poolCtxDone) := by
  cases x <;> simp [Gen.Startup.onErrAwaitedCases]

theorem onErrAwaitedCases_len : Gen.Startup.onErrAwaitedCases.length = 2 := rfl

end Pandora.Bridge.C12Startup
