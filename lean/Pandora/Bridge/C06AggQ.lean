/-
Bridge lemmas for C06 (ii)–(iv): the control skeletons REGENERATED from /repo (`Pandora.Gen.AggQ`, see
gen/area_aggq.go for what a skeleton keeps; function-local names — parameters, receivers, locals, labels — are
`$0`, `$1` … in order of first appearance, so renaming a local does not matter) are the ones the transition systems `Model.AggQueue`,
`Model.C06Pool` and `Model.CliShutdown` were written from. A change of the statement structure of any of
these functions (a select case, the order of the deferred flush and close, the drain loop, the drop counter,
the await loop of the pool, the signal branch …) breaks one of these lemmas; then the models have to be
re-read against the code. The file sink's open flags are compared as numbers.
-/
import Pandora.Gen.AggQ
import Pandora.Model.C06Engine

namespace Pandora.Bridge.AggQ
open Pandora.Gen.AggQ

/-- `Reporter.Report`: one non-blocking send; `default:` is the drop — model `step (.report r)`, kind `.encoder` -/
def reporterReportExpected : String :=
  "func($0 core.Sample) {select{case $1.Incomming <- $0:{} default:{$1.dropSample}}}"
theorem reporterReport_eq : reporterReport = reporterReportExpected := rfl

/-- `dropSample`: one `samplesDropped.Inc()` per dropped sample — model `droppedCount + 1` -/
def reporterDropSampleExpected : String :=
  "func($0 core.Sample) {$1.samplesDropped.Inc coreutil.ReturnSampleIfBorrowed}"
theorem reporterDropSample_eq : reporterDropSample = reporterDropSampleExpected := rfl

/-- `DroppedErr`: nil iff the counter is 0, else the counter — model `droppedErr` -/
def reporterDroppedErrExpected : String :=
  "func() error {$0.samplesDropped.Load if($1 == 0){return(nil)} return(&SomeSamplesDropped{$1})}"
theorem reporterDroppedErr_eq : reporterDroppedErr = reporterDroppedErrExpected := rfl

/-- the text of the error: `<N> samples were dropped` -/
def droppedErrorTextExpected : String :=
  "func() string {return(fmt.Sprintf(\"%v samples were dropped\", $0.Dropped))}"
theorem droppedErrorText_eq : droppedErrorText = droppedErrorTextExpected := rfl

/-- the queue is a channel of capacity `SampleQueueSize` — model `cfg.cap` -/
def newReporterExpected : String :=
  "func($0 ReporterConfig) *Reporter {return(&Reporter{ Incomming: make(chan core.Sample, $0.SampleQueueSize), })}"
theorem newReporter_eq : newReporter = newReporterExpected := rfl

/-- `dataSinkAggregator.Run`: deferred [sink.Close, DroppedErr] registered BEFORE the deferred encoder Close/Flush (so it runs after it); main select {sample | flushTick (flush only when nothing was flushed since the last tick) | ctx.Done → leave the loop}; drain loop {sample | default → return nil} — model `.recv`, `.tick`, `.seeCancel`, `.drain` -/
def encoderRunExpected : String :=
  "func($0 context.Context, $1 core.AggregatorDeps) ($2 error) {set($3.AggregatorDeps=$1) $3.conf.Sink.OpenSink if($2 != nil){return()} defer{$4.Close $3.DroppedErr} $3.newEncoder defer{if($5){$6.Close return()} $7.Flush} if($3.conf.FlushInterval > 0){time.NewTicker} $8:for{select{case <-$0.Done():{break $8} case <-$9:{if($10 == $11){$7.Flush if($2 != nil){return()}}} case $12 := <-$3.Incomming:{$3.handleSample if($2 != nil){return()}}}} for{select{case $13 := <-$3.Incomming:{$3.handleSample if($2 != nil){return()}} default:{return(nil)}}}}"
theorem encoderRun_eq : encoderRun = encoderRunExpected := rfl

/-- `handleSample`: Encode, error → return -/
def encoderHandleSampleExpected : String :=
  "func($0 SampleEncoder, $1 core.Sample) error {$0.Encode if($2 != nil){return(errors.WithMessage($2, \"…\"))} coreutil.ReturnSampleIfBorrowed return(nil)}"
theorem encoderHandleSample_eq : encoderHandleSample = encoderHandleSampleExpected := rfl

/-- `jsonEncoder.Encode`: the value, then the raw line terminator -/
def jsonEncodeExpected : String :=
  "func($0 core.Sample) error {$1.WriteVal $1.WriteRaw return($1.Error)}"
theorem jsonEncode_eq : jsonEncode = jsonEncodeExpected := rfl

/-- `jsonEncoder.Flush`: the jsoniter stream, then the bufio layer -/
def jsonFlushExpected : String :=
  "func() error {$0.Stream.Flush $0.buf.Flush return($1)}"
theorem jsonFlush_eq : jsonFlush = jsonFlushExpected := rfl

/-- jsonlines is the encoder aggregator over the JSON encoder -/
def newJSONLinesAggregatorExpected : String :=
  "func($0 JSONLineAggregatorConfig) core.Aggregator {return(NewEncoderAggregator($1, $0.EncoderAggregatorConfig))}"
theorem newJSONLinesAggregator_eq : newJSONLinesAggregator = newJSONLinesAggregatorExpected := rfl

/-- stream over a bufio.Writer -/
def newJSONEncoderExpected : String :=
  "func($0 io.Writer, $1 JSONLineEncoderConfig) SampleEncoder {$2.Froze $1.BufferSizeOrDefault bufio.NewWriterSize $1.BufferSizeOrDefault jsoniter.NewStream return(&jsonEncoder{$3, $4})}"
theorem newJSONEncoder_eq : newJSONEncoder = newJSONEncoderExpected := rfl

/-- `fileSink.OpenSink` -/
def fileOpenSinkExpected : String :=
  "func() ($0 io.WriteCloser, $1 error) {return($2.fs.open)}"
theorem fileOpenSink_eq : fileOpenSink = fileOpenSinkExpected := rfl

/-- `checkAllInstancesAreFinished`: the guard, close(runRes), toWait--, runCancel — model `PSt.check` -/
def engineCheckAllFinishedExpected : String :=
  "func() {$0.isStartFinished let $1=($0.isStartFinished() && $0.awaitedInstances >= $0.startedInstances) if(!$1){return()} close($0.runRes) recv($0.runRes) if($2){panic} $0.toWait-- set($0.runRes=nil) $0.runCancel}"
theorem engineCheckAllFinished_eq : engineCheckAllFinished = engineCheckAllFinishedExpected := rfl

/-- `isStartFinished` is `startRes == nil` -/
def engineIsStartFinishedExpected : String :=
  "func() bool {return($0.startRes == nil)}"
theorem engineIsStartFinished_eq : engineIsStartFinished = engineIsStartFinishedExpected := rfl

/-- `awaitRun`: loop while toWait > 0 over the four result channels; start and run results call the check — model `.awaitProv/.awaitAgg/.awaitStart/.awaitInst` -/
def engineAwaitRunExpected : String :=
  "func() {for($0.toWait > 0){select{case $1 := <-$0.aggregatorErr:{$0.toWait-- set($0.aggregatorErr=nil) errutil.IsCtxError($0.runCtx) if(!errutil.IsCtxError($0.runCtx, $1)){$0.onErrAwaited}} case $2 := <-$0.providerErr:{$0.toWait-- set($0.providerErr=nil) errutil.IsCtxError($0.runCtx) if(!errutil.IsCtxError($0.runCtx, $2)){$0.onErrAwaited}} case $3 := <-$0.runRes:{$0.awaitedInstances++ if($3.Err == outOfAmmoErr){$0.isStartFinished if(!$0.isStartFinished()){$0.instanceStartCancel}}else{errutil.IsCtxError($0.runCtx) if(!errutil.IsCtxError($0.runCtx, $3.Err)){$0.onErrAwaited}} $0.checkAllInstancesAreFinished} case $4 := <-$0.startRes:{$0.toWait-- set($0.startRes=nil) set($0.startedInstances=$4.Started) errutil.IsCtxError($0.instanceStartCtx) if(!errutil.IsCtxError($0.instanceStartCtx, $4.Err)){$0.onErrAwaited} $0.checkAllInstancesAreFinished}}}}"
theorem engineAwaitRun_eq : engineAwaitRun = engineAwaitRunExpected := rfl

/-- `awaitRunAsync`: after awaitRun: close(awaitErr), onWaitDone — model `.waitDone` -/
def engineAwaitRunAsyncExpected : String :=
  "func($0 *poolAsyncRunHandle) <-chan error {$1.newAwaitRunHandle go{defer{close($2.awaitErr) if($1.onWaitDone != nil){$1.onWaitDone}} $2.awaitRun} return($3)}"
theorem engineAwaitRunAsync_eq : engineAwaitRunAsync = engineAwaitRunAsyncExpected := rfl

/-- `Engine.Wait` waits for every pool's onWaitDone -/
def engineWaitExpected : String :=
  "func() {$0.wait.Wait}"
theorem engineWait_eq : engineWait = engineWaitExpected := rfl

/-- `Engine.Run`: one goroutine per pool runs `pool.Run(ctx)` and offers its result on `runRes` (or drops it when the engine's context is done); the loop receives exactly `len(Pools)` results, returns at the first non-nil one or when the context is done, and `nil` only after all of them were nil — model `C06Engine` `.poolSend/.engRecv/.engCtxDone` -/
def engineRunExpected : String :=
  "func($0 context.Context) error {ctx($0, $1 <- $0) defer{$1} range($2.config.Pools){if($3.ID == \"\"){set($3.ID=…)} $2.wait.Add newPool go{$4.Run($0) select{case <-$0.Done():{} case $5 <- poolRunResult{Err: $6, ID: $4.ID}:{}}}} for($7 < len($2.config.Pools); $7++){select{case <-$0.Done():{return($0.Err())} case $8 := <-$5:{if($8.Err != nil){select{case <-$0.Done():{return($0.Err())} default:{}} return(errors.WithMessage($8.Err, fmt.Sprintf(\"…\", $8.ID)))}}}} return(nil)}"
theorem engineRun_eq : engineRun = engineRunExpected := rfl

/-- `instancePool.Run`: after `awaitRunAsync` the only `return nil` is under `case err, ok := <-awaitErr` with `!ok` — the channel was closed, which `awaitRunAsync` does after `awaitRun` returned; the context case returns `ctx.Err()` — model `C06Engine` `.poolRetClosed/.poolRetErr/.poolRetCtx` -/
def enginePoolRunExpected : String :=
  "func($0 context.Context) error {ctx($0, $1 <- $0) defer{$1} $2.warmUpGun($0) if($3 != nil){$2.onWaitDone return($3)} $2.runAsync($0) if($4 != nil){if($2.onWaitDone != nil){$2.onWaitDone} return($4)} $2.awaitRunAsync select{case <-$0.Done():{return($0.Err())} case $5, $6 := <-$7:{if($6){return($5)} return(nil)}}}"
theorem enginePoolRun_eq : enginePoolRun = enginePoolRunExpected := rfl

/-- `runAsync`: `runCtx` is a child of the pool context, `instanceStartCtx` a child of `runCtx`; provider and aggregator run under `runCtx`, `startInstances` gets (`instanceStartCtx`, `runCtx`); the handle keeps both cancel functions — model `C06Engine.cancelledBy` -/
def engineRunAsyncExpected : String :=
  "func($0 context.Context) (*poolAsyncRunHandle, error) {ctx($1, $2 <- $0) ctx($3, $4 <- $1) $5.buildNewInstanceSchedule($3, $4) if($6 != nil){return(nil, $6)} go{$5.Aggregator.Run($1) send($7)} go{$5.Provider.Run($1) send($8)} go{$5.startInstances($3, $1) send($9)} return(&poolAsyncRunHandle{ aggregatorErr: $7, instanceStartCancel: $4, instanceStartCtx: $3, poolCtx: $0, providerErr: $8, runCancel: $2, runCtx: $1, runRes: $10, startRes: $9, }, nil)}"
theorem engineRunAsync_eq : engineRunAsync = engineRunAsyncExpected := rfl

/-- `startInstances`: instances are created under the second context (`runCtx`), every instance goroutine sends its `Run` result on `runRes` after `Run` returned, `started` counts the goroutines — model `C06Pool` `.launch/.finish/.startDone` -/
def engineStartInstancesExpected : String :=
  "func( $0, $1 context.Context, $2 func() (core.Schedule, error), $3 chan<- instanceRunResult) ($4 int, $5 error) {coreutil.NewWaiter $6.Wait($0) if(!$7){$0.Err return()} newInstance($1) if($5 != nil){return()} $4++ go{defer{$8.Close} return($8.Run($1)) send($3)} for($6.Wait($0); $4++){go{runNewInstance($1) send($3)}} $0.Err return()}"
theorem engineStartInstances_eq : engineStartInstances = engineStartInstancesExpected := rfl

/-- `onErrAwaited`: the error is handed to `pool.Run` or dropped when the pool's context is done; it never closes anything -/
def engineOnErrAwaitedExpected : String :=
  "func($0 error) {select{case <-$1.poolCtx.Done():{$1.poolCtx.Err} case $1.awaitErr <- $0:{}}}"
theorem engineOnErrAwaited_eq : engineOnErrAwaited = engineOnErrAwaitedExpected := rfl

/-- `runNewInstance`: `instance.Run(ctx)` synchronously, gun closed afterwards -/
def engineRunNewInstanceExpected : String :=
  "func($0 context.Context, $1 *zap.Logger, $2 string, $3 int, $4 instanceDeps) error {newInstance($0) if($5 != nil){return($5)} defer{$6.Close} return($6.Run($0))}"
theorem engineRunNewInstance_eq : engineRunNewInstance = engineRunNewInstanceExpected := rfl

/-- `instance.Run`: `gun.Shoot` and the discarded-shoot `aggregator.Report` are plain calls of the loop: `Run` returns only after the last of them returned — the reading behind `C06Pool` `.report` being enabled only while the instance is running -/
def engineInstanceRunExpected : String :=
  "func($0 context.Context) ($1 error) {defer{if($2 != nil){errors.Errorf} $3.metrics.InstanceFinish.Add} $3.metrics.InstanceStart.Add coreutil.NewWaiter for(!$4.IsFinished($0)){$3.provider.Acquire if(!$5){return(outOfAmmoErr)} defer{$3.provider.Release} $4.Wait($0) if(!$4.Wait($0)){return(nil)} $4.IsSlowDown($0) if(!$3.discardOverflow || !$4.IsSlowDown($0)){$3.metrics.Request.Add $3.gun.Shoot $3.metrics.Response.Add}else{netsample.DiscardedShootSample $3.aggregator.Report} return(nil) if($6 != nil){return($6)}} return($0.Err())}"
theorem engineInstanceRun_eq : engineInstanceRun = engineInstanceRunExpected := rfl

/-- `phoutAggregator.Run`: deferred Flush then Close; select {sample (+ flush if the 1 s ticker fired) | time.After flush | ctx.Done → drain until `default`} — model kind `.phout` -/
def phoutRunExpected : String :=
  "func($0 context.Context, $1 core.AggregatorDeps) error {time.NewTicker defer{$2.writer.Flush $2.file.Close} $3:for{select{case <-$0.Done():{for{select{case $4 := <-$2.sink:{$2.handle if($5 != nil){return($5)}} default:{break $3}}}} case <-time.After(1 * time.Second):{$2.writer.Flush} case $6 := <-$2.sink:{$2.handle if($7 != nil){return($7)} select{case <-$8.C:{$2.writer.Flush} default:{}}}}} return(nil)}"
theorem phoutRun_eq : phoutRun = phoutRunExpected := rfl

/-- `phoutAggregator.Report`: a blocking send -/
def phoutReportExpected : String :=
  "func($0 *Sample) {send($1.sink)}"
theorem phoutReport_eq : phoutReport = phoutReportExpected := rfl

/-- `NewPhout`: the destination is opened once through the file system it is given (`Create` or `OpenFile`: the same
operation, the flags are `phoutOpenFlags`, see `phout_flags`), bufio writer of the configured size -/
def newPhoutExpected : String :=
  "func($0 afero.Fs, $1 PhoutConfig) ($2 Aggregator, $3 error) {if($4 != \"\"){$0.open} if($3 != nil){return()} $1.Buffer.BufferSizeOrDefault bufio.NewWriterSize return()}"
theorem newPhout_eq : newPhout = newPhoutExpected := rfl

/-- `awaitPandoraTermination` — model `CliShutdown.step true` -/
def cliAwaitTerminationExpected : String :=
  "func($0 *engine.Engine, $1 func(), $2 chan error, $3 *zap.Logger) {signal.Notify select{case $4 := <-$2:{switch($4){case nil:{} case $4:{$1 time.AfterFunc $0.Wait exit}}} case $5 := <-$6:{switch($5){case syscall.SIGINT:{$1} case syscall.SIGTERM:{$1} default:{exit}} time.After select{case <-$7:{exit} case $8 := <-$6:{exit} case $9 := <-$2:{go{$0.Wait close($10)} select{case <-$7:{exit} case <-$10:{} case $11 := <-$6:{exit}} exit}}}}}"
theorem cliAwaitTermination_eq : cliAwaitTermination = cliAwaitTerminationExpected := rfl

/-- `runEngine`: `errs <- engine.Run(ctx)` -/
def cliRunEngineExpected : String :=
  "func($0 context.Context, $1 *engine.Engine, $2 chan error) {ctx($0, $3 <- $0) defer{$3} $1.Run($0) send($2)}"
theorem cliRunEngine_eq : cliRunEngine = cliRunEngineExpected := rfl

/-- `ReadConfigAndRunEngine`: the engine runs under the context whose cancel function is handed to `awaitPandoraTermination` as `gracefulShutdown` -/
def cliReadConfigAndRunEngineExpected : String :=
  "func() {flag.Args readConfig newLogger startMonitoring defer{$0} newEngineMetrics startReport engine.New ctx($1, $2 <- context.Background()) defer{$2} go{runEngine($1)} awaitPandoraTermination($2)}"
theorem cliReadConfigAndRunEngine_eq : cliReadConfigAndRunEngine = cliReadConfigAndRunEngineExpected := rfl

/-- `phoutAggregator.handle`: encode into the reused line buffer, terminator, (89739df) flush first when the line does not
fit into what is left of the writer's buffer — only whole lines reach the destination, `Model.C06WholeLines.handle true` —,
`writer.Write`, reset the buffer, and only THEN hand the sample back to the pool; the write error is returned — model
`St.handle`, `C06SinkFail.handle` -/
def phoutHandleExpected : String :=
  "func($0 *Sample) error {appendPhout set($1.buf=append($1.buf, '\\n')) $1.writer.Available if($1.writer.Available() < len($1.buf)){$1.writer.Flush} $1.writer.Write set($1.buf=$1.buf[:0]) releaseSample return($2)}"
theorem phoutHandle_eq : phoutHandle = phoutHandleExpected := rfl

/-- `Acquire`: a pooled sample is overwritten as a whole (`*s = Sample{…}`): id, all ten fields and the error read as zero on a sample a gun gets — what `Model.Phout.Sample` values built by setters assume -/
def sampleAcquireExpected : String :=
  "func($0 string) *Sample {samplePool.Get time.Now set(*$1=Sample{ timeStamp: time.Now(), tags: $0, }) return($1)}"
theorem sampleAcquire_eq : sampleAcquire = sampleAcquireExpected := rfl

/-- `releaseSample`: back into the pool -/
def sampleReleaseExpected : String :=
  "func($0 *Sample) {samplePool.Put}"
theorem sampleRelease_eq : sampleRelease = sampleReleaseExpected := rfl

/-- `DiscardedShootSample`: a fresh sample (not from the pool) with the current time and the 777 net code — what `instance.Run` reports for an overdue token -/
def sampleDiscardedExpected : String :=
  "func() *Sample {time.Now $0.SetUserNet return($0)}"
theorem sampleDiscarded_eq : sampleDiscarded = sampleDiscardedExpected := rfl


/-! ### round 4: the helpers every sample / byte goes through, the rest of the pool's start-up path, options -/

/-- `aggregatorWrapper.Report` (what `core/import` wraps phout in): exactly one synchronous `Report` of the wrapped aggregator per call — a Report that returned has queued its sample -/
def wrapReportExpected : String :=
  "func($0 core.Sample) {$1.Aggregator.Report}"
theorem wrapReport_eq : wrapReport = wrapReportExpected := rfl

/-- `WrapAggregator`: the wrapper around the given aggregator, nothing else -/
def wrapAggregatorExpected : String :=
  "func($0 Aggregator) core.Aggregator {return(&aggregatorWrapper{$0})}"
theorem wrapAggregator_eq : wrapAggregator = wrapAggregatorExpected := rfl

/-- `ioutil2.NewCallbackWriter` (between the JSON encoder's bufio layer and the sink): the callback, then the bytes and the result of the wrapped writer, unchanged -/
def callbackWriterExpected : String :=
  "func($0 io.Writer, $1 func()) WriterFunc {return(func($2 []byte) ($3 int, $4 error) { $1() return $0.Write($2) })}"
theorem callbackWriter_eq : callbackWriter = callbackWriterExpected := rfl

/-- `coreutil.ReturnSampleIfBorrowed`: one `Return` for a borrowed sample, nothing otherwise — model `C06Borrow` -/
def returnIfBorrowedExpected : String :=
  "func($0 core.Sample) {if(!$1){return()} $2.Return}"
theorem returnIfBorrowed_eq : returnIfBorrowed = returnIfBorrowedExpected := rfl

/-- `BufferSizeOrDefault`: 0 → the default, up to the minimum → the minimum, else the configured size -/
def bufferSizeOrDefaultExpected : String :=
  "func() int {if($0 == 0){return(DefaultBufferSize)} if($0 <= MinimalBufferSize){return(MinimalBufferSize)} return($0)}"
theorem bufferSizeOrDefault_eq : bufferSizeOrDefault = bufferSizeOrDefaultExpected := rfl

/-- `errutil.IsCtxError`: nil, or the cause is the context's own error — what the await loop does NOT hand to `onErrAwaited` -/
def isCtxErrorExpected : String :=
  "func($0 context.Context, $1 error) bool {if($1 == nil){return(true)} return($0.Err() == errors.Cause($1))}"
theorem isCtxError_eq : isCtxError = isCtxErrorExpected := rfl

/-- `buildNewInstanceSchedule`: per-instance schedules as they are; a shared one is wrapped with the on-finish callback -/
def engineBuildScheduleExpected : String :=
  "func($0 context.Context, $1 context.CancelFunc) ( func() (core.Schedule, error), error, ) {if($2.RPSPerInstance){return($2.NewRPSSchedule, nil)} $2.NewRPSSchedule if($3 != nil){return(nil, $3)} coreutil.NewCallbackOnFinishSchedule return(func() (core.Schedule, error) { return $4, $3 }, nil)}"
theorem engineBuildSchedule_eq : engineBuildSchedule = engineBuildScheduleExpected := rfl

/-- the shared schedule's on-finish callback: calls its second parameter (the cancel function) unless the first (the context) is done already; nothing else -/
def engineScheduleFinishExpected : String :=
  "func($0 context.Context, $1 context.CancelFunc) ( func() (core.Schedule, error), error, ) onfinish{select{case <-$0.Done():{return()} default:{$1}}}"
theorem engineScheduleFinish_eq : engineScheduleFinish = engineScheduleFinishExpected := rfl

/-- `coreutil.NewCallbackOnFinishSchedule`: the wrapper keeps the schedule and the callback it is given -/
def newCallbackScheduleExpected : String :=
  "func($0 core.Schedule, $1 func()) core.Schedule {return(&callbackOnFinishSchedule{ Schedule: $0, onFinish: $1, })}"
theorem newCallbackSchedule_eq : newCallbackSchedule = newCallbackScheduleExpected := rfl

/-- its `Next`: the wrapped schedule's token; the callback goes through a `sync.Once` and only when there is no token -/
def callbackScheduleNextExpected : String :=
  "func() ($0 time.Time, $1 bool) {$2.Schedule.Next if(!$1){$2.onFinishOnce.Do} return()}"
theorem callbackScheduleNext_eq : callbackScheduleNext = callbackScheduleNextExpected := rfl

/-- its `Left`: the same `Once`, when nothing is left -/
def callbackScheduleLeftExpected : String :=
  "func() int {$0.Schedule.Left if($1 == 0){$0.onFinishOnce.Do} return($1)}"
theorem callbackScheduleLeft_eq : callbackScheduleLeft = callbackScheduleLeftExpected := rfl

/-- `warmUpGun`: a gun is made, warmed up when it can be, closed; any failure is returned -/
def engineWarmUpGunExpected : String :=
  "func($0 context.Context) error {$1.NewGun if($2 != nil){return(fmt.Errorf(\"can't initiate a gun: %w\", $2))} defer{closeGun} if($3){$4.WarmUp if($2 != nil){return(fmt.Errorf(\"gun warm up failed: %w\", $2))}} return(nil)}"
theorem engineWarmUpGun_eq : engineWarmUpGun = engineWarmUpGunExpected := rfl

/-- `newInstance`: schedule, gun, `Bind` to the pool's aggregator; a failure returns no instance -/
def engineNewInstanceExpected : String :=
  "func($0 context.Context, $1 *zap.Logger, $2 string, $3 int, $4 instanceDeps) (*instance, error) {$4.newSchedule if($5 != nil){return(nil, $5)} $4.newGun if($5 != nil){return(nil, $5)} $6.Bind if($5 != nil){closeGun return(nil, $5)} return($7, nil)}"
theorem engineNewInstance_eq : engineNewInstance = engineNewInstanceExpected := rfl

/-- `newAwaitRunHandle`: no calls -/
def engineNewAwaitRunHandleExpected : String :=
  "func($0 *poolAsyncRunHandle) (*runAwaitHandle, <-chan error) {return($1, $2)}"
theorem engineNewAwaitRunHandle_eq : engineNewAwaitRunHandle = engineNewAwaitRunHandleExpected := rfl

/-- `newPool`: the pool keeps the `onWaitDone` it is given (`Engine.wait.Done`) -/
def engineNewPoolExpected : String :=
  "func($0 *zap.Logger, $1 Metrics, $2 func(), $3 InstancePoolConfig) *instancePool {return(&instancePool{InstancePoolConfig: $3, log: $0, metrics: $1, onWaitDone: $2})}"
theorem engineNewPool_eq : engineNewPool = engineNewPoolExpected := rfl

/-- `NewEncoderAggregator`: a fresh `Reporter` of the configured queue size per aggregator -/
def newEncoderAggregatorExpected : String :=
  "func( $0 NewSampleEncoder, $1 EncoderAggregatorConfig, ) core.Aggregator {return(&dataSinkAggregator{ Reporter: *NewReporter($1.ReporterConfig), newEncoder: $0, conf: $1, })}"
theorem newEncoderAggregator_eq : newEncoderAggregator = newEncoderAggregatorExpected := rfl

/-- the file sink opens for writing, creates, TRUNCATES (a result file never keeps lines of an earlier run), does
not append, is not exclusive (round 4: stated on the flag bits, so that `Create`, another order of the flags or
O_RDWR instead of O_WRONLY change nothing) -/
theorem file_flags :
    fileOpenFlags &&& osTRUNC = osTRUNC ∧ fileOpenFlags &&& osCREATE = osCREATE ∧
    fileOpenFlags &&& osAPPEND = 0 ∧ fileOpenFlags &&& osEXCL = 0 ∧
    (fileOpenFlags &&& (osWRONLY ||| osRDWR) = osWRONLY ∨ fileOpenFlags &&& (osWRONLY ||| osRDWR) = osRDWR) := by decide

/-- (round 4) the ten numeric fields of a sample are kept as 64-bit machine integers (`int` on the platforms pandora
is built for, or `int64`): every value the setters accept — durations in µs up to ±2^63, byte counts beyond 2^31 —
is written as it was reported; the line theorems (`C06_phout_wellformed`: ALL integer values) and the harness's
int64 field values rely on it -/
theorem sample_fields_wide : (sampleFieldsElem = "int" ∨ sampleFieldsElem = "int64") ∧ sampleFieldsLen = 10 := by decide

/-- (round 4) phout's destination is opened for writing, created when missing, TRUNCATED, not appended to, not
exclusive — whichever of `Fs.Create` / `Fs.OpenFile` the code calls and whichever of O_WRONLY / O_RDWR it asks for:
a result file never keeps bytes of an earlier run -/
theorem phout_flags :
    phoutOpenFlags &&& osTRUNC = osTRUNC ∧ phoutOpenFlags &&& osCREATE = osCREATE ∧
    phoutOpenFlags &&& osAPPEND = 0 ∧ phoutOpenFlags &&& osEXCL = 0 ∧
    (phoutOpenFlags &&& (osWRONLY ||| osRDWR) = osWRONLY ∨ phoutOpenFlags &&& (osWRONLY ||| osRDWR) = osRDWR) := by decide

/-- the pool waits for four results: provider, aggregator, instance start, instance runs -/
theorem results_to_wait : engineResultsToWait = 4 := by decide

/-- `Engine.Run` awaits one result per pool: the loop runs while `i < len(e.config.Pools)` — model `awaitN = n` -/
def engineRunLoopBoundExpected : String := "$0 < len($1.config.Pools)"
theorem engineRunLoopBound_eq : engineRunLoopBound = engineRunLoopBoundExpected := rfl

/-- `instance.Run` starts no goroutine: `gun.Shoot` and `aggregator.Report` are calls of the instance's own
goroutine, made through the instance's fields -/
theorem instance_run_synchronous :
    engineInstanceGoStmts = 0 ∧ engineInstanceCalls.contains "gun.Shoot" = true ∧
    engineInstanceCalls.contains "aggregator.Report" = true := by decide

open Pandora.Model.C06Engine in
/-- **who is cancelled by what** (contexts and cancel functions are runAsync's locals, numbered):
provider and aggregator run under the context the handle keeps as `runCtx`; `startInstances` gets
(`instanceStartCtx`, `runCtx`); `runCancel` — what `checkAllInstancesAreFinished` calls — cancels the
aggregator's context; `instanceStartCancel` — called on "out of ammo" while instances are still running, and by the
shared schedule's finish callback — cancels `instanceStartCtx` ONLY, not the aggregator; a cancel of the pool's
own context (Engine.Run's cancel, SIGINT/SIGTERM) reaches the aggregator. -/
theorem ctx_tree :
    engineAggregatorRunCtx = [engineHandleRunCtx] ∧ engineProviderRunCtx = [engineHandleRunCtx] ∧
    engineStartInstancesCtx = [engineHandleInstanceStartCtx, engineHandleRunCtx] ∧
    engineHandlePoolCtx = enginePoolCtxParam ∧
    (cancelledBy engineCtxDerive engineHandleRunCancel).contains engineHandleRunCtx = true ∧
    (cancelledBy engineCtxDerive engineHandleRunCancel).contains engineHandleInstanceStartCtx = true ∧
    cancelledBy engineCtxDerive engineHandleInstanceStartCancel = [engineHandleInstanceStartCtx] ∧
    (cancelledBy engineCtxDerive engineHandleInstanceStartCancel).contains engineHandleRunCtx = false ∧
    (doneWith engineCtxDerive enginePoolCtxParam).contains engineHandleRunCtx = true ∧
    (doneWith engineCtxDerive engineHandleRunCtx).contains enginePoolCtxParam = false := by decide

/-! ### round 4: option tables, defaults, plugin registration -/

/-- option table lookup: Go field ↦ (option name, validate tag) -/
def optionOf (t : List (String × String × String)) (field : String) : Option (String × String) :=
  (t.find? fun r => r.1 == field).map (·.2)

def defaultOf (t : List (String × Int)) (field : String) : Option Int :=
  (t.find? fun r => r.1 == field).map (·.2)

/-- what is registered under (kind, name): (constructor, default-config function) -/
def registered (kind name : String) : Option (String × String) :=
  (importRegistrations.find? fun r => r.1 == kind && r.2.1 == name).map (·.2.2)

/-- **option names and validation** the harness (`kind=conf`) and the queue model rely on: the queue size of both
aggregators is the option `sample-queue-size` (phout: `min=0` — an unbuffered channel is allowed, the queue model
over-approximates it by one slot; encoder aggregators: `min=1`, the model's `cap ≥ 1`), ids are switched on by `id`,
the destination is `destination` (phout) / `sink` + `path` (jsonlines over the file sink, both required), the
writer's buffer is `buffer-size`, the flush period `flush-interval` -/
theorem options :
    optionOf phoutConfigFields "SampleQueueSize" = some ("sample-queue-size", "min=0") ∧
    optionOf phoutConfigFields "ID" = some ("id", "") ∧
    optionOf phoutConfigFields "Destination" = some ("destination", "") ∧
    optionOf phoutConfigFields "Buffer.BufferSize" = some ("buffer-size", "") ∧
    optionOf jsonlinesConfigFields "EncoderAggregatorConfig.ReporterConfig.SampleQueueSize" = some ("sample-queue-size", "min=1") ∧
    optionOf jsonlinesConfigFields "EncoderAggregatorConfig.Sink" = some ("sink", "required") ∧
    optionOf jsonlinesConfigFields "EncoderAggregatorConfig.FlushInterval" = some ("flush-interval", "") ∧
    optionOf jsonlinesConfigFields "JSONLineEncoderConfig.BufferSizeConfig.BufferSize" = some ("buffer-size", "") ∧
    optionOf fileSinkConfigFields "Path" = some ("path", "required") := by decide

/-- the default configurations pass their own validation: the encoder aggregators' default queue holds at least one
sample, phout's is not negative (no default at all is 0: an unbuffered channel, allowed by `min=0`); the defaults are reached through the default-config functions that are registered -/
theorem queue_defaults :
    (defaultOf reporterDefaults "SampleQueueSize").any (fun n => decide (1 ≤ n)) = true ∧
    (defaultOf phoutDefaults "SampleQueueSize").all (fun n => decide (0 ≤ n)) = true ∧
    encoderDefaults.any (fun r => r.1 == "ReporterConfig=DefaultReporterConfig") = true ∧
    jsonlinesDefaults.any (fun r => r.1 == "EncoderAggregatorConfig=DefaultEncoderAggregatorConfig") = true := by decide

/-- **what a config's `type: phout` / `jsonlines` / `json` / sink `file` builds**: phout is `NewPhout` over the
process's file system, wrapped by `WrapAggregator` (so every Report goes through `aggregatorWrapper.Report`), with
`DefaultPhoutConfig` underneath the user's options; jsonlines / json are `NewJSONLinesAggregator` over
`DefaultJSONLinesAggregatorConfig`; the `file` sink is `datasink.NewFile` over the same file system -/
theorem registrations :
    registered "Aggregator" "phout" =
      some ("func($0 netsample.PhoutConfig) (core.Aggregator, error) {netsample.NewPhout return(netsample.WrapAggregator($1), $2)}",
            "netsample.DefaultPhoutConfig") ∧
    registered "Aggregator" "jsonlines" = some ("aggregator.NewJSONLinesAggregator", "aggregator.DefaultJSONLinesAggregatorConfig") ∧
    registered "Aggregator" "json" = some ("aggregator.NewJSONLinesAggregator", "aggregator.DefaultJSONLinesAggregatorConfig") ∧
    registered "DataSink" "file" = some ("func($0 datasink.FileConfig) core.DataSink {return(datasink.NewFile($1, $0))}", "") := by decide

/-- `BufferSizeOrDefault` as its skeleton reads, over the regenerated constants -/
def bufSize (n : Nat) : Nat :=
  if n = 0 then bufferDefaultSize else if n ≤ bufferMinimalSize then bufferMinimalSize else n

/-- whatever `buffer-size` says, the writers are built with a positive size of at least the minimum; a size above the
minimum is taken as it is -/
theorem bufSize_ok (n : Nat) : 0 < bufSize n ∧ bufferMinimalSize ≤ bufSize n ∧ (bufferMinimalSize < n → bufSize n = n) := by
  have hle : bufferMinimalSize ≤ bufferDefaultSize := by decide
  have hpos : 0 < bufferMinimalSize := by decide
  unfold bufSize
  refine ⟨?_, ?_, ?_⟩
  · split
    · omega
    · split <;> omega
  · split
    · omega
    · split <;> omega
  · intro h
    have : n ≠ 0 := by omega
    simp [this]
    omega

/-- the shared schedule's on-finish callback gets runAsync's `instanceStartCtx` / `instanceStartCancel`: when the
shared RPS schedule runs out it stops the START of further instances, and — `ctx_tree` — cancels neither the
aggregator nor the instances that are still shooting -/
theorem schedule_finish_args :
    engineBuildScheduleArgs = [engineHandleInstanceStartCtx, engineHandleInstanceStartCancel] := by decide


end Pandora.Bridge.AggQ
