/-
Bridge lemmas for C06 (ii)–(iv): the control skeletons REGENERATED from /repo (`Pandora.Gen.AggQ`, see
gen/area_aggq.go for what a skeleton keeps) are the ones the transition systems `Model.AggQueue`,
`Model.C06Pool` and `Model.CliShutdown` were written from. A change of the statement structure of any of
these functions (a select case, the order of the deferred flush and close, the drain loop, the drop counter,
the await loop of the pool, the signal branch …) breaks one of these lemmas; then the models have to be
re-read against the code. The file sink's open flags are compared as numbers.
-/
import Pandora.Gen.AggQ

namespace Pandora.Bridge.AggQ
open Pandora.Gen.AggQ

/-- `Reporter.Report`: one non-blocking send; `default:` is the drop — model `step (.report r)`, kind `.encoder` -/
def reporterReportExpected : String :=
  "func(s core.Sample) {select{case a.Incomming <- s:{} default:{a.dropSample}}}"
theorem reporterReport_eq : reporterReport = reporterReportExpected := rfl

/-- `dropSample`: one `samplesDropped.Inc()` per dropped sample — model `droppedCount + 1` -/
def reporterDropSampleExpected : String :=
  "func(s core.Sample) {a.samplesDropped.Inc coreutil.ReturnSampleIfBorrowed}"
theorem reporterDropSample_eq : reporterDropSample = reporterDropSampleExpected := rfl

/-- `DroppedErr`: nil iff the counter is 0, else the counter — model `droppedErr` -/
def reporterDroppedErrExpected : String :=
  "func() error {a.samplesDropped.Load if(dropped == 0){return(nil)} return(&SomeSamplesDropped{dropped})}"
theorem reporterDroppedErr_eq : reporterDroppedErr = reporterDroppedErrExpected := rfl

/-- the text of the error: `<N> samples were dropped` -/
def droppedErrorTextExpected : String :=
  "func() string {return(fmt.Sprintf(\"%v samples were dropped\", err.Dropped))}"
theorem droppedErrorText_eq : droppedErrorText = droppedErrorTextExpected := rfl

/-- the queue is a channel of capacity `SampleQueueSize` — model `cfg.cap` -/
def newReporterExpected : String :=
  "func(conf ReporterConfig) *Reporter {return(&Reporter{ Incomming: make(chan core.Sample, conf.SampleQueueSize), })}"
theorem newReporter_eq : newReporter = newReporterExpected := rfl

/-- `dataSinkAggregator.Run`: deferred [sink.Close, DroppedErr] registered BEFORE the deferred encoder Close/Flush (so it runs after it); main select {sample | flushTick (flush only when nothing was flushed since the last tick) | ctx.Done → leave the loop}; drain loop {sample | default → return nil} — model `.recv`, `.tick`, `.seeCancel`, `.drain` -/
def encoderRunExpected : String :=
  "func(ctx context.Context, deps core.AggregatorDeps) (err error) {set(a.AggregatorDeps=deps) a.conf.Sink.OpenSink if(err != nil){return()} defer{sink.Close a.DroppedErr} a.newEncoder defer{if(ok){encoder.Close return()} encoder.Flush} if(a.conf.FlushInterval > 0){time.NewTicker} HandleLoop:for{select{case sample := <-a.Incomming:{a.handleSample if(err != nil){return()}} case <-flushTick:{if(previousFlushes == flushes){encoder.Flush if(err != nil){return()}}} case <-ctx.Done():{break HandleLoop}}} for{select{case sample := <-a.Incomming:{a.handleSample if(err != nil){return()}} default:{return(nil)}}}}"
theorem encoderRun_eq : encoderRun = encoderRunExpected := rfl

/-- `handleSample`: Encode, error → return -/
def encoderHandleSampleExpected : String :=
  "func(enc SampleEncoder, sample core.Sample) error {enc.Encode if(err != nil){return(errors.WithMessage(err, \"sample encode failed\"))} coreutil.ReturnSampleIfBorrowed return(nil)}"
theorem encoderHandleSample_eq : encoderHandleSample = encoderHandleSampleExpected := rfl

/-- `jsonEncoder.Encode`: the value, then the raw line terminator -/
def jsonEncodeExpected : String :=
  "func(s core.Sample) error {e.WriteVal e.WriteRaw return(e.Error)}"
theorem jsonEncode_eq : jsonEncode = jsonEncodeExpected := rfl

/-- `jsonEncoder.Flush`: the jsoniter stream, then the bufio layer -/
def jsonFlushExpected : String :=
  "func() error {e.Stream.Flush e.buf.Flush return(err)}"
theorem jsonFlush_eq : jsonFlush = jsonFlushExpected := rfl

/-- jsonlines is the encoder aggregator over the JSON encoder -/
def newJSONLinesAggregatorExpected : String :=
  "func(conf JSONLineAggregatorConfig) core.Aggregator {return(NewEncoderAggregator(newEncoder, conf.EncoderAggregatorConfig))}"
theorem newJSONLinesAggregator_eq : newJSONLinesAggregator = newJSONLinesAggregatorExpected := rfl

/-- stream over a bufio.Writer -/
def newJSONEncoderExpected : String :=
  "func(w io.Writer, conf JSONLineEncoderConfig) SampleEncoder {apiConfig.Froze conf.BufferSizeOrDefault bufio.NewWriterSize conf.BufferSizeOrDefault jsoniter.NewStream return(&jsonEncoder{stream, buf})}"
theorem newJSONEncoder_eq : newJSONEncoder = newJSONEncoderExpected := rfl

/-- `fileSink.OpenSink` -/
def fileOpenSinkExpected : String :=
  "func() (wc io.WriteCloser, err error) {return(s.fs.OpenFile(s.conf.Path, os.O_WRONLY|os.O_CREATE|os.O_TRUNC, 0644))}"
theorem fileOpenSink_eq : fileOpenSink = fileOpenSinkExpected := rfl

/-- `phoutAggregator.Run`: deferred Flush then Close; select {sample (+ flush if the 1 s ticker fired) | time.After flush | ctx.Done → drain until `default`} — model kind `.phout` -/
def phoutRunExpected : String :=
  "func(ctx context.Context, _ core.AggregatorDeps) error {time.NewTicker defer{a.writer.Flush a.file.Close} loop:for{select{case r := <-a.sink:{a.handle if(err != nil){return(err)} select{case <-shouldFlush.C:{a.writer.Flush} default:{}}} case <-time.After(1 * time.Second):{a.writer.Flush} case <-ctx.Done():{for{select{case r := <-a.sink:{a.handle if(err != nil){return(err)}} default:{break loop}}}}}} return(nil)}"
theorem phoutRun_eq : phoutRun = phoutRunExpected := rfl

/-- `phoutAggregator.Report`: a blocking send -/
def phoutReportExpected : String :=
  "func(s *Sample) {send(a.sink)}"
theorem phoutReport_eq : phoutReport = phoutReportExpected := rfl

/-- `NewPhout`: `fs.Create` (truncates), bufio writer of the configured size -/
def newPhoutExpected : String :=
  "func(fs afero.Fs, conf PhoutConfig) (a Aggregator, err error) {if(filename != \"\"){fs.Create} if(err != nil){return()} conf.Buffer.BufferSizeOrDefault bufio.NewWriterSize return()}"
theorem newPhout_eq : newPhout = newPhoutExpected := rfl

/-- `checkAllInstancesAreFinished`: the guard, close(runRes), toWait--, runCancel — model `PSt.check` -/
def engineCheckAllFinishedExpected : String :=
  "func() {ah.isStartFinished let allFinished=(ah.isStartFinished() && ah.awaitedInstances >= ah.startedInstances) if(!allFinished){return()} close(ah.runRes) recv(ah.runRes) if(ok){panic} set(ah.runRes=nil) ah.toWait-- ah.runCancel}"
theorem engineCheckAllFinished_eq : engineCheckAllFinished = engineCheckAllFinishedExpected := rfl

/-- `isStartFinished` is `startRes == nil` -/
def engineIsStartFinishedExpected : String :=
  "func() bool {return(ah.startRes == nil)}"
theorem engineIsStartFinished_eq : engineIsStartFinished = engineIsStartFinishedExpected := rfl

/-- `awaitRun`: loop while toWait > 0 over the four result channels; start and run results call the check — model `.awaitProv/.awaitAgg/.awaitStart/.awaitInst` -/
def engineAwaitRunExpected : String :=
  "func() {for(ah.toWait > 0){select{case err := <-ah.providerErr:{set(ah.providerErr=nil) ah.toWait-- errutil.IsCtxError if(!errutil.IsCtxError(ah.runCtx, err)){ah.onErrAwaited}} case err := <-ah.aggregatorErr:{set(ah.aggregatorErr=nil) ah.toWait-- errutil.IsCtxError if(!errutil.IsCtxError(ah.runCtx, err)){ah.onErrAwaited}} case res := <-ah.startRes:{set(ah.startRes=nil) ah.toWait-- set(ah.startedInstances=res.Started) errutil.IsCtxError if(!errutil.IsCtxError(ah.instanceStartCtx, res.Err)){ah.onErrAwaited} ah.checkAllInstancesAreFinished} case res := <-ah.runRes:{ah.awaitedInstances++ if(res.Err == outOfAmmoErr){ah.isStartFinished if(!ah.isStartFinished()){ah.instanceStartCancel}}else{errutil.IsCtxError if(!errutil.IsCtxError(ah.runCtx, res.Err)){ah.onErrAwaited}} ah.checkAllInstancesAreFinished}}}}"
theorem engineAwaitRun_eq : engineAwaitRun = engineAwaitRunExpected := rfl

/-- `awaitRunAsync`: after awaitRun: close(awaitErr), onWaitDone — model `.waitDone` -/
def engineAwaitRunAsyncExpected : String :=
  "func(runHandle *poolAsyncRunHandle) <-chan error {p.newAwaitRunHandle go{defer{close(ah.awaitErr) if(p.onWaitDone != nil){p.onWaitDone}} ah.awaitRun} return(awaitErr)}"
theorem engineAwaitRunAsync_eq : engineAwaitRunAsync = engineAwaitRunAsyncExpected := rfl

/-- `Engine.Wait` waits for every pool's onWaitDone -/
def engineWaitExpected : String :=
  "func() {e.wait.Wait}"
theorem engineWait_eq : engineWait = engineWaitExpected := rfl

/-- `awaitPandoraTermination` — model `CliShutdown.step true` -/
def cliAwaitTerminationExpected : String :=
  "func(pandora *engine.Engine, gracefulShutdown func(), errs chan error, log *zap.Logger) {signal.Notify select{case sig := <-sigs:{switch(sig){case syscall.SIGINT:{gracefulShutdown} case syscall.SIGTERM:{gracefulShutdown} default:{exit}} time.After select{case <-timeout:{exit} case sig := <-sigs:{exit} case err := <-errs:{go{pandora.Wait close(waitDone)} select{case <-waitDone:{} case <-timeout:{exit} case sig := <-sigs:{exit}} exit}}} case err := <-errs:{switch(err){case nil:{} case err:{gracefulShutdown time.AfterFunc pandora.Wait exit}}}}}"
theorem cliAwaitTermination_eq : cliAwaitTermination = cliAwaitTerminationExpected := rfl

/-- `runEngine`: `errs <- engine.Run(ctx)` -/
def cliRunEngineExpected : String :=
  "func(ctx context.Context, engine *engine.Engine, errs chan error) {context.WithCancel defer{cancel} engine.Run send(errs)}"
theorem cliRunEngine_eq : cliRunEngine = cliRunEngineExpected := rfl

/-- the file sink opens write-only, creates, TRUNCATES (a result file never keeps lines of an earlier run), does
not append; permission 0644 -/
theorem file_flags :
    fileOpenFlags = osWRONLY ||| osCREATE ||| osTRUNC ∧ fileOpenFlags &&& osTRUNC = osTRUNC ∧
    fileOpenFlags &&& osAPPEND = 0 ∧ fileOpenFlags &&& osEXCL = 0 ∧ fileOpenPerm = 0o644 := by decide

/-- the pool waits for four results: provider, aggregator, instance start, instance runs -/
theorem results_to_wait : engineResultsToWait = 4 := by decide

end Pandora.Bridge.AggQ
