/-
C03 — bridge for the COMPOSITE profile: what `gen -area instloop` (gen/area_instloop_comp.go) re-reads from the current
core/schedule/composite.go on every run is what `Pandora.Model.C03Comp` has.

* `reader_eq`, `writer_eq` — the reader section and the writer section of `(*compositeSchedule).Next`, regenerated
  statement by statement with their control and data flow (continuation style over the list of parts; the lock state is
  tracked along every path by the extractor: a child call or `len(s.scheds)` without the lock, `startNext` without the write
  lock, a return or the scheduling point with a lock held are not translated), ARE the model's `rsec` / `wsec` — for EVERY
  list of parts and every `seen`, including the panics (`s.scheds[0]` of an empty slice).  The proofs only unfold, split
  and decide: renamed locals, the `somebodyStartedNextBeforeUs` test written inline, independent statements reordered do
  not matter; a retry that is dropped, a drained part dropped without looking at the length, a token taken twice do.
* `prologue_eq` — before the reader section `Next` only sets the `started` flag.
* `left_reads_eq`, `left_finite`, `left_is_tot` — `Left()` reads `len(s.scheds)`, `s.leftAfter[0]`, `s.scheds[0].Left()`
  in ONE reader section and, for finite parts (`leftAfter[0]` = the tokens of the parts after the current one), returns the
  tokens of the current part plus those after it — the model's `compLeft` — without ever going to the write lock.
* `startNext_eq` — `startNext` drops the first element of `scheds` and of `leftAfter` together and starts the new first.
* `build_loop_eq`, `build_step_finite`, `build_finite` — `NewComposite` fills `leftAfter` from the last part to the first;
  for finite parts entry `k` is the number of tokens of the parts after `k` (`mkLeftAfter`), the total is `tot parts`.
-/
import Pandora.Gen.InstLoop
import Pandora.Model.C03Comp

namespace Pandora.Bridge.C03Comp
open Pandora.Model.C03Comp

theorem prologue_eq : Gen.InstLoop.compNextPrologue = ["$.started.Store(true)"] := rfl

theorem reader_eq (s : List Nat) : Gen.InstLoop.compNextReader s = rsec s := by
  match s with
  | [] => simp [Gen.InstLoop.compNextReader, rsec, cHeadNext]
  | (n + 1) :: r => simp [Gen.InstLoop.compNextReader, rsec, cHeadNext]
  | [0] => simp [Gen.InstLoop.compNextReader, rsec, cHeadNext, cLen]
  | 0 :: b :: r =>
    simp only [Gen.InstLoop.compNextReader, rsec, cHeadNext, cLen, List.length_cons]
    have h : ¬ ((((r.length + 1 + 1 : Nat) : Int)) = 1) := by omega
    simp [h]
    omega

theorem writer_eq (s : List Nat) (seen : Nat) : Gen.InstLoop.compNextWriter s seen = wsec s seen := by
  by_cases hl : s.length < seen
  · have hl' : ((s.length : Nat) : Int) < (seen : Int) := by omega
    match s, hl, hl' with
    | [], hl, hl' => simp [Gen.InstLoop.compNextWriter, wsec, cHeadNext, cLen, hl]
    | (n + 1) :: r, hl, hl' => simp [Gen.InstLoop.compNextWriter, wsec, cHeadNext, cLen, hl, hl']
    | [0], hl, hl' => simp [Gen.InstLoop.compNextWriter, wsec, cHeadNext, cLen, hl, hl']
    | 0 :: b :: r, hl, hl' =>
      have h1 : ¬ ((((r.length + 1 + 1 : Nat) : Int)) = 1) := by omega
      simp [Gen.InstLoop.compNextWriter, wsec, cHeadNext, cLen, hl, hl', h1]
  · have hl' : ¬ ((s.length : Nat) : Int) < (seen : Int) := by omega
    match s, hl, hl' with
    | [], hl, hl' => simp [Gen.InstLoop.compNextWriter, wsec, cStartNext, cLen, hl, hl']
    | [a], hl, hl' => simp [Gen.InstLoop.compNextWriter, wsec, cStartNext, cLen, hl, hl']
    | a :: (n + 1) :: r, hl, hl' => simp [Gen.InstLoop.compNextWriter, wsec, cStartNext, cHeadNext, cLen, hl, hl']
    | a :: 0 :: r, hl, hl' =>
      have h1 : (((r.length + 1 + 1 : Nat) : Int)) > 1 := by omega
      simp [Gen.InstLoop.compNextWriter, wsec, cStartNext, cHeadNext, cLen, hl, hl', h1]

theorem left_reads_eq : Gen.InstLoop.compLeftReads = ["left", "leftAfter", "schedsLeft"] := rfl

/-- finite parts: no branch of the decision leads to the write lock or to "unknown" -/
theorem left_finite (n la l : Int) (st : Bool) (hl : 0 ≤ l) (hla : 0 ≤ la) (h1 : n = 1 → la = 0) :
    Gen.InstLoop.compLeftDecide n la l st = .ret (l + la) := by
  unfold Gen.InstLoop.compLeftDecide
  (repeat' split) <;> simp_all <;> omega

/-- `Left()` of a composite whose current part has `a` tokens and whose later parts are `r` -/
theorem left_is_tot (a : Nat) (r : List Nat) (st : Bool) :
    Gen.InstLoop.compLeftDecide ((a :: r).length : Nat) (tot r : Nat) (a : Nat) st = .ret ((compLeft (a :: r) : Nat) : Int) := by
  rw [left_finite _ _ _ st (by omega) (by omega)]
  · simp [compLeft, tot]
  · intro h
    match r with
    | [] => simp [tot]
    | b :: r' => simp only [List.length_cons] at h; omega

theorem startNext_eq :
    Gen.InstLoop.compStartNext = ["$.leftAfter = $.leftAfter[1:]", "$.scheds = $.scheds[1:]", "$.scheds[0].Start($t)"] := rfl

theorem build_loop_eq : Gen.InstLoop.compBuildLoop = "for $i := len($parts) - 1; $i >= 0; $i--" := rfl

/-- one round of `NewComposite`'s loop for a finite part, nothing unknown so far -/
theorem build_step_finite (acc pl : Int) (h : 0 ≤ pl) : Gen.InstLoop.compBuildStep acc false pl = (acc, false, acc + pl) := by
  unfold Gen.InstLoop.compBuildStep
  have h' : ¬ pl < 0 := by omega
  simp [h']

/-- the whole loop over finite parts: `leftAfter[k]` = the tokens of the parts after `k`, nothing unknown, all counted -/
theorem build_finite (parts : List Nat) :
    buildWith Gen.InstLoop.compBuildStep parts = ((mkLeftAfter parts).map (fun n => (n : Int)), false, (tot parts : Int)) := by
  induction parts with
  | nil => rfl
  | cons a r ih =>
    simp only [buildWith, ih, build_step_finite _ _ (Int.natCast_nonneg a), mkLeftAfter, List.map_cons, tot]
    simp only [Prod.mk.injEq, List.cons.injEq, true_and, and_true]
    omega

end Pandora.Bridge.C03Comp
