/-
C03 — bridge for the COMPOSITE profile: what `gen -area instloop` (gen/area_instloop_comp.go) re-reads from the current
core/schedule/composite.go on every run is what `Pandora.Model.C03Comp` has.

* `reader_eq`, `writer_eq` — the reader section and the writer section of `(*compositeSchedule).Next`, regenerated
  statement by statement with their control and data flow (continuation style over the list of parts; the lock state is
  tracked along every path by the extractor: a child call or `len(s.scheds)` without the lock, `startNext` without the write
  lock, a return or the scheduling point with a lock held are not translated), ARE the model's `rsec` / `wsec` — for EVERY
  list of parts and every `seen`, including the panics (`s.scheds[0]` of an empty slice).  The proofs only unfold, split
  and decide: renamed locals, the `somebodyStartedNextBeforeUs` test written inline, independent statements reordered do
  not matter; a retry that is dropped, a drained part dropped without looking at the length, a token taken twice do.
* `prologue_eq` — before the reader section `Next` only sets the `started` flag.
* `left_reads_eq`, `left_finite`, `left_is_tot` — `Left()` reads `len(s.scheds)`, `s.leftAfter[0]`, `s.scheds[0].Left()`
  in ONE reader section and, for finite parts (`leftAfter[0]` = the tokens of the parts after the current one), returns the
  tokens of the current part plus those after it — the model's `compLeft` — without ever going to the write lock.
* `startNext_eq` — `startNext` drops the first element of `scheds` and of `leftAfter` together and starts the new first.
* `build_loop_eq`, `build_step_finite`, `build_finite` — `NewComposite` fills `leftAfter` from the last part to the first;
  for finite parts entry `k` is the number of tokens of the parts after `k` (`mkLeftAfter`), the total is `tot parts`.
-/
import Pandora.Gen.InstLoop
import Pandora.Model.C03Comp

namespace Pandora.Bridge.C03Comp
open Pandora.Model.C03Comp

theorem prologue_eq : Gen.InstLoop.compNextPrologue = ["$.started.Store(true)"] := rfl

theorem reader_eq (s : List Nat) : Gen.InstLoop.compNextReader s = rsec s := by
  unfold Gen.InstLoop.compNextReader
  cases s with
  | nil => simp [rsec, cHeadNext]
  | cons a r =>
    cases a with
    | succ n => simp [rsec, cHeadNext]
    | zero =>
      cases r with
      | nil => simp [rsec, cHeadNext, cLen]
      | cons b r' =>
        have h1 : ¬ ((r'.length : Int) + 1 + 1 = 1) := by omega
        simp [rsec, cHeadNext, cLen, h1]
        omega

theorem writer_eq (s : List Nat) (seen : Nat) : Gen.InstLoop.compNextWriter s seen = wsec s seen := by
  have key : decide (cLen s < (seen : Int)) = decide (s.length < seen) := by simp [cLen]
  unfold Gen.InstLoop.compNextWriter wsec
  simp only [key]
  by_cases hl : s.length < seen
  · simp only [hl, decide_true, if_true]
    cases s with
    | nil => simp [cHeadNext]
    | cons a r =>
      cases a with
      | succ n => simp [cHeadNext]
      | zero =>
        cases r with
        | nil => simp [cHeadNext, cLen]
        | cons b r' =>
          have h1 : ¬ ((r'.length : Int) + 1 + 1 = 1) := by omega
          simp [cHeadNext, cLen, h1]
  · simp only [hl, decide_false, Bool.false_eq_true, if_false]
    cases s with
    | nil => simp [cStartNext]
    | cons a r =>
      cases r with
      | nil => simp [cStartNext]
      | cons b r' =>
        cases b with
        | succ n => simp [cStartNext, cHeadNext]
        | zero =>
          have h2 : (1 : Int) < (r'.length : Int) + 1 + 1 := by omega
          simp [cStartNext, cHeadNext, cLen, h2]

theorem left_reads_eq : Gen.InstLoop.compLeftReads = ["left", "leftAfter", "schedsLeft"] := rfl

/-- finite parts: no branch of the decision leads to the write lock or to "unknown" -/
theorem left_finite (n la l : Int) (st : Bool) (hl : 0 ≤ l) (hla : 0 ≤ la) (h1 : n = 1 → la = 0) :
    Gen.InstLoop.compLeftDecide n la l st = .ret (l + la) := by
  unfold Gen.InstLoop.compLeftDecide
  (repeat' split) <;> simp_all <;> omega

/-- `Left()` of a composite whose current part has `a` tokens and whose later parts are `r` -/
theorem left_is_tot (a : Nat) (r : List Nat) (st : Bool) :
    Gen.InstLoop.compLeftDecide ((a :: r).length : Nat) (tot r : Nat) (a : Nat) st = .ret ((compLeft (a :: r) : Nat) : Int) := by
  rw [left_finite _ _ _ st (by omega) (by omega)]
  · simp [compLeft, tot]
  · intro h
    match r with
    | [] => simp [tot]
    | b :: r' => simp only [List.length_cons] at h; omega

theorem startNext_eq :
    Gen.InstLoop.compStartNext = ["$.leftAfter = $.leftAfter[1:]", "$.scheds = $.scheds[1:]", "$.scheds[0].Start($t)"] := rfl

theorem build_loop_eq : Gen.InstLoop.compBuildLoop = "for $i := len($parts) - 1; $i >= 0; $i--" := rfl

/-- one round of `NewComposite`'s loop for a finite part, nothing unknown so far -/
theorem build_step_finite (acc pl : Int) (h : 0 ≤ pl) : Gen.InstLoop.compBuildStep acc false pl = (acc, false, acc + pl) := by
  unfold Gen.InstLoop.compBuildStep
  have h' : ¬ pl < 0 := by omega
  simp [h']

/-- the whole loop over finite parts: `leftAfter[k]` = the tokens of the parts after `k`, nothing unknown, all counted -/
theorem build_finite (parts : List Nat) :
    buildWith Gen.InstLoop.compBuildStep parts = ((mkLeftAfter parts).map Int.ofNat, false, Int.ofNat (tot parts)) := by
  induction parts with
  | nil => rfl
  | cons a r ih =>
    simp only [buildWith, ih]
    rw [build_step_finite _ _ (Int.natCast_nonneg a)]
    simp only [mkLeftAfter, List.map_cons, tot, Prod.mk.injEq, true_and]
    simp only [Int.ofNat_eq_natCast, Int.natCast_add]
    omega

end Pandora.Bridge.C03Comp
