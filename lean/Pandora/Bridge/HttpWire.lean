/-
Bridge lemmas for C09: the definitions REGENERATED from the current /repo source (`Pandora.Gen.HttpWire`, rewritten by
`gen -area httpwire` on every check) are what the hand-written model (`Pandora.Model.C09`) computes. The property theorems
(Props/C09) are stated about the model; a change of EnrichRequestWithHeaders, of what BaseGun.Shoot does to the request,
of getHostWithoutPort / PreResolveTargetAddr, of a decoder's merge loop or of the arguments it hands to Setup, of
BuildRequest, raw.DecodeRequest, the keep-alive wiring of the transport, the per-gun client or the gun factories that is
not an identity breaks a lemma here (or makes the translator fail) — `lake build Pandora.Props.C09` then fails.

Stated against the REPAIRED tree: uri/uripost add-if-absent merge (1aacb94), raw HTTP/1.0 close rule (2a058ea), connect
factory keeps Target (21b17ff).
-/
import Pandora.Gen.HttpWire
import Pandora.Model.C09

namespace Pandora.Bridge.HttpWire
open Pandora.Model.C09

/-! ### semantic translations -/

/-- EnrichRequestWithHeaders: one round of the loop is `enrichStep`, the model's `enrich` is its iteration -/
theorem enrich_cons (r : Req) (k : Str) (vs : List Str) (rest : Hdr) :
    enrich r ((k, vs) :: rest) = (Gen.HttpWire.enrichStep r k vs).bind (fun r' => enrich r' rest) := by
  simp only [enrich, Gen.HttpWire.enrichStep, hostKey]
  cases hget r.header (canon k) with
  | some x => rfl
  | none =>
    -- every guard decided, then computation: the proof does not depend on how the guards are nested or negated
    by_cases hk : canon k = [72, 111, 115, 116] <;> by_cases hh : r.host = [] <;> cases vs <;> simp [hk, hh]

theorem enrich_nil (r : Req) : enrich r [] = some r := rfl

/-- BaseGun.Shoot: whatever scheme and URL host the request came with, what reaches Client.Do is the model's `shoot` -/
theorem shootRewrite_eq (g : Gun) (r : Req) (sch : Scheme) (d : Str) :
    Gen.HttpWire.shootRewrite g.ssl g.target g.targetResolved
      { scheme := sch, dial := d, method := r.method, uri := r.uri, host := r.host, header := r.header, body := r.body,
        close := wantsClose r } = some (shoot g r) := by
  simp only [Gen.HttpWire.shootRewrite, shoot]
  cases g.ssl <;> by_cases hh : r.host = [] <;> simp [hh]

/-- the option-guarded blocks of Shoot that were not translated: debug logging, auto-tag, answer log, trace/dump — none
is on by default and none is part of the property's configurations -/
theorem shootSkipped_eq :
    Gen.HttpWire.shootSkipped = ["Config.AnswLog", "Config.AutoTag", "Config.HTTPTrace", "DebugLog"] := rfl

theorem getHostWithoutPort_eq (t : Str) : Gen.HttpWire.getHostWithoutPort t (splitHostPort? t) = hostWithoutPort t := by
  simp only [Gen.HttpWire.getHostWithoutPort, hostWithoutPort]
  cases splitHostPort? t <;> rfl

theorem preResolve_eq (dns isResolved : Bool) (l : Lookup) (t : Str) :
    Gen.HttpWire.preResolve dns isResolved l t = (preResolve dns isResolved l t, dnsCacheAfter dns isResolved l) := by
  cases dns <;> cases isResolved <;> cases l <;> rfl

/-- uri.go readLine / uripost.go readBlock: add-if-absent, one round -/
theorem uriMergeStep_eq (h : Hdr) (k : Str) (vv : List Str) :
    Gen.HttpWire.uriMergeStep h k vv = some (match hget h (canon k) with
      | some _ => h
      | none => hput h (canon k) vv) := by
  simp only [Gen.HttpWire.uriMergeStep]
  cases hget h (canon k) <;> rfl

theorem uripostMergeStep_eq (h : Hdr) (k : Str) (vv : List Str) :
    Gen.HttpWire.uripostMergeStep h k vv = Gen.HttpWire.uriMergeStep h k vv := by
  (simp only [Gen.HttpWire.uripostMergeStep, Gen.HttpWire.uriMergeStep]) <;> (cases hget h (canon k) <;> rfl)

theorem mergeUri_eq (common conf : Hdr) :
    mergeUri common conf = conf.foldl (fun h kv => (Gen.HttpWire.uriMergeStep h kv.1 kv.2).getD h) common := by
  simp only [mergeUri, uriMergeStep_eq, Option.getD_some]
  congr 1

/-- jsonline.go Scan and readArray: `header.Set(k, v)` -/
theorem jsonMergeStep_eq (h : Hdr) (k v : Str) :
    Gen.HttpWire.jsonScanMergeStep h k v = some (hset h k v) ∧ Gen.HttpWire.jsonArrayMergeStep h k v = some (hset h k v) :=
  ⟨rfl, rfl⟩

theorem mergeJson_eq (conf : Hdr) (lines : List (Str × Str)) :
    mergeJson conf lines = lines.foldl (fun h kv => (Gen.HttpWire.jsonScanMergeStep h kv.1 kv.2).getD h) conf := by
  simp only [mergeJson, (jsonMergeStep_eq _ _ _).1, Option.getD_some]

/-- raw.DecodeRequest: `req.Close` after it, given what http.ReadRequest stores (net/http shouldClose) -/
theorem decodeRequestClose_eq (minor : Nat) (conn : List Str) :
    Gen.HttpWire.decodeRequestClose 1 minor (goShouldClose minor conn) (hasTok conn closeTok) = decodeClose minor conn := by
  simp only [Gen.HttpWire.decodeRequestClose, decodeClose]
  by_cases h : minor = 0 <;> simp [h]

/-! ### shape facts: where the values handed along come from

`paramN` = N-th parameter of the function, `recv` = its receiver, `f(args)#i` = i-th result of a call, `(T).F` = field F of a
local of struct type T, `merged` = the header map the merge loop works on, `a|b` = assigned in several places. -/

/-- uri: `header := commonHeader.Clone()`, merged with the decoder's configured headers, handed to
`Setup("GET", <first word of the line>, nil, header, <rest of the line>)`; nothing else touches it -/
theorem uri_shape :
    Gen.HttpWire.uriBase = "clone(param1)" ∧ Gen.HttpWire.uriOver = "recv.decodedConfigHeaders" ∧
    Gen.HttpWire.uriSetup = ["lit:\"GET\"", "zero|strings.Cut(param0,lit:\" \")#0", "nil", "merged",
      "strings.Cut(param0,lit:\" \")#1"] ∧
    Gen.HttpWire.uriOtherUses = [] ∧
    Gen.HttpWire.uriCommonCalls = ["param1.Set(util.DecodeHeader(param0)#0,util.DecodeHeader(param0)#1)", "clone(param1)"] :=
  ⟨rfl, rfl, rfl, rfl, rfl⟩

/-- uripost: the same with `Setup("POST", uri, <bodySize bytes read after the line>, header, tag)` -/
theorem uripost_shape :
    Gen.HttpWire.uripostBase = "clone(param1)" ∧ Gen.HttpWire.uripostOver = "recv.decodedConfigHeaders" ∧
    Gen.HttpWire.uripostSetup = ["lit:\"POST\"", "uripost.DecodeURI(.ReadString(lit:10)#0|strings.TrimSpace(self))#1",
      "readSized(param0,uripost.DecodeURI(.ReadString(lit:10)#0|strings.TrimSpace(self))#0)#0", "merged",
      "uripost.DecodeURI(.ReadString(lit:10)#0|strings.TrimSpace(self))#2"] ∧
    Gen.HttpWire.uripostOtherUses = [] ∧
    Gen.HttpWire.uripostCommonCalls =
      ["param1.Set(util.DecodeHeader(.ReadString(lit:10)#0|strings.TrimSpace(self))#0,util.DecodeHeader(.ReadString(lit:10)#0|strings.TrimSpace(self))#1)",
       "clone(param1)"] :=
  ⟨rfl, rfl, rfl, rfl, rfl⟩

/-- http/json, line by line and as an array: `header := decodedConfigHeaders.Clone()`, the entity's headers `Set` over it,
`Setup(entity.Method, "http://" + entity.Host + entity.URI, []byte(entity.Body) or nil, header, entity.Tag)` -/
theorem json_shape :
    Gen.HttpWire.jsonScanBase = "clone(recv.decodedConfigHeaders)" ∧ Gen.HttpWire.jsonArrayBase = "clone(recv.decodedConfigHeaders)" ∧
    Gen.HttpWire.jsonScanOver = "(entity).Headers" ∧ Gen.HttpWire.jsonArrayOver = "(entity).Headers" ∧
    Gen.HttpWire.jsonScanSetup = ["(entity).Method", "concat(lit:\"http://\",(entity).Host,(entity).URI)",
      "zero|if(!=((entity).Body,lit:\"\"))conv((entity).Body)", "merged", "(entity).Tag"] ∧
    Gen.HttpWire.jsonArraySetup = Gen.HttpWire.jsonScanSetup ∧
    Gen.HttpWire.jsonScanOtherUses = [] ∧ Gen.HttpWire.jsonArrayOtherUses = [] :=
  ⟨rfl, rfl, rfl, rfl, rfl, rfl, rfl, rfl⟩

/-- BuildRequest: http.NewRequest(method, url, body) resp. raw.DecodeRequest(buff), ONE EnrichRequestWithHeaders with the
stored header, returned as it is -/
theorem build_shape :
    Gen.HttpWire.ammoBuild = ["req:=http.NewRequest(recv.method,recv.url,zero|if(!=(recv.body,nil))bytes.NewReader(recv.body))",
      "util.EnrichRequestWithHeaders(req,recv.header)", "return req,nil"] ∧
    Gen.HttpWire.rawBuild = ["req:=raw.DecodeRequest(recv.buff)", "util.EnrichRequestWithHeaders(req,recv.commonHeaders)",
      "return req,nil"] ∧
    Gen.HttpWire.rawSetupStore = "clone(param3)" ∧
    Gen.HttpWire.rawSetupCalls = ["readSized(recv.reader,raw.DecodeHeader(zero|.ReadString(lit:10)#0|strings.TrimSpace(self))#0)#0 ; recv.decodedConfigHeaders",
      "nil ; recv.decodedConfigHeaders"] ∧
    Gen.HttpWire.decodeRequestTouches = ["RequestURI=\"\""] :=
  ⟨rfl, rfl, rfl, rfl, rfl⟩

/-- keep-alives: the transport's DisableKeepAlives is the `disable-keep-alives` option, off by default; the Client of a gun
is built inside NewBaseGun (one transport per gun); the http2 gun insists on ssl -/
theorem transport_shape :
    Gen.HttpWire.transportDisableKeepAlives = "param0.DisableKeepAlives" ∧ Gen.HttpWire.defaultDisableKeepAlives = false ∧
    Gen.HttpWire.disableKeepAlivesOption = "disable-keep-alives" ∧
    Gen.HttpWire.baseGunClient = "param0(param1.Client,param1.Target)" ∧ Gen.HttpWire.http2NeedsSSL = true :=
  ⟨rfl, rfl, rfl, rfl, rfl⟩

/-- the three gun factories: each stores the pre-resolved address in TargetResolved and leaves Target alone (`factory`) -/
theorem factory_shape :
    Gen.HttpWire.factoryAssigns =
      ["connect: TargetResolved=phttp.PreResolveTargetAddr(&conf.Client,conf.Target)#0",
       "http2: TargetResolved=phttp.PreResolveTargetAddr(&conf.Client,conf.Target)#0",
       "http: TargetResolved=phttp.PreResolveTargetAddr(&conf.Client,conf.Target)#0"] := rfl

/-! ### round 2: the whole transport wiring -/

/-- NewTransport: every field of the http.Transport is the TransportConfig field of the same name — in particular the
idle timeout of the connection pool is `idle-conn-timeout` and nothing else -/
theorem newTransport_eq (c : TransportCfg) : Gen.HttpWire.newTransport c = newTransport c := rfl

/-- DefaultTransportConfig: keep-alives on, no idle limits, idle connections live 90s, no response-header timeout -/
theorem defaultTransportCfg_eq : Gen.HttpWire.defaultTransportCfg = defaultTransportCfg := by decide

/-- the documented option names select the fields the model's `setTransportOpt` selects -/
theorem transportTags_eq : Gen.HttpWire.transportTags = transportTags := by decide

/-- nothing else of the transport is configured except the dialer and the TLS client config; the options stand at the
top level of the gun's config; every client constructor (http, http2, connect) hands the gun's OWN TransportConfig to
NewTransport; the defaults come from DefaultTransportConfig; redirects are off by default -/
theorem transport_wiring_shape :
    Gen.HttpWire.transportOtherFields = [] ∧
    Gen.HttpWire.transportLaterAssigns = ["DialContext=param1", "TLSClientConfig=&composite:tls.Config"] ∧
    Gen.HttpWire.defaultTransportOtherFields = [] ∧
    Gen.HttpWire.transportEmbedding = "Transport:,squash in Client:,squash" ∧
    Gen.HttpWire.clientTransports =
      ["HTTP1ClientConstructor: NewTransport(param0.Transport,NewDialer(param0.Dialer).DialContext,param1)",
       "HTTP2ClientConstructor: NewHTTP2Transport(param0.Transport,NewDialer(param0.Dialer).DialContext,param1)",
       "newConnectClientVia: NewTransport(param0.Transport,newConnectDialFunc(param2,param0.ConnectSSL,NewDialer(param0.Dialer)),param1)",
       "NewHTTP2Transport: NewTransport(param0,param1,param2)"] ∧
    Gen.HttpWire.defaultClientTransport = "DefaultTransportConfig()" ∧
    Gen.HttpWire.defaultClientRedirect = "lit:false" :=
  ⟨rfl, rfl, rfl, rfl, rfl, rfl, rfl⟩

/-- BaseGun.Shoot after Client.Do (outside the option-guarded blocks): return on error, note the status, read the body to
its end into ioutil.Discard, close it on return — so the connection can go back to the pool whatever the status and
however large the body; nothing else looks at the response -/
theorem shootResponse_shape :
    Gen.HttpWire.shootResponse =
      ["_,err=io.Copy(ioutil.Discard,res.Body)", "defer res.Body.Close()", "if-err-return", "if-err-return",
       "local.SetProtoCode(res.StatusCode)"] := rfl

/-- the gun's Client hands the request to the transport as it is, exactly once: `noRedirectClient.Do` is one RoundTrip (no
retry: a request whose answer is lost does not arrive twice), redirects are followed only when `redirect` is set, the
http2 wrapper calls the wrapped client once -/
theorem clientDo_shape :
    Gen.HttpWire.clientDo =
      ["noRedirectClient.Do: return recv.Transport.RoundTrip(param0)",
       "NewRedirectingClient: if(param1){return composite:redirectClient(&composite:http.Client)} ; return composite:noRedirectClient(param0)",
       "panicOnHTTP1Client.Do: 1 inner Do calls; first: local,local:=recv.Client.Do(param0)"] := rfl

/-- http/json: entities come from a json.Decoder over the file, line by line and as an array alike (an entry may span
several lines; the layout of the file is invisible) -/
theorem jsonDecode_shape :
    Gen.HttpWire.jsonDecodeSites = ["Scan: recv.decoder.Decode(&local)", "readArray: recv.decoder.Decode(&local)"] := rfl

/-- connect gun: tunnels are opened at `TargetResolved` (defaulting to `Target`), by a TCP dial to that address followed by
`CONNECT <the address the transport asks for>` — the model's `connectTunnel` -/
theorem connect_shape :
    Gen.HttpWire.connectShape =
      ["NewConnectGun: if(==(param0.TargetResolved,lit:\"\")){param0.TargetResolved=param0.Target}",
       "NewConnectGun client: newConnectClientVia(lit0,lit1,param0.TargetResolved)",
       "NewConnectGun: return NewBaseGun(func,param0,param1)",
       "tunnel dial: param2.DialContext(lit0,lit:\"tcp\",param0)",
       "tunnel request: Method=lit:\"CONNECT\" Host=lit2"] := rfl

/-! ### round 3: GetBody, the option-guarded blocks of Shoot, shared clients, the end of a pass, the provider -/

/-- base.go GetBody IS the model's `getBody`: read everything, put an equal reader back, hand the bytes to the log -/
theorem getBody_eq (b : BodyRd) : Gen.HttpWire.getBody b = getBody b := by
  simp only [Gen.HttpWire.getBody, getBody]

/-- the option-guarded blocks of Shoot before Client.Do touch the request exactly so: the answer log calls GetBody, auto-tag
and the debug log read `req.URL`, the dump calls httputil.DumpRequest, the trace replaces `req` by `req.WithContext(…)` —
what `bodyAtDo` models; nothing assigns Method, URL, Host or Header -/
theorem shootGuarded_shape :
    Gen.HttpWire.shootGuarded = ["Config.AnswLog.Enabled: local=GetBody(req)", "Config.AutoTag.Enabled: local.AddTag(autotag(recv.Config.AutoTag.URIElements,req.URL))", "Config.HTTPTrace.DumpEnabled: def:=httputil.DumpRequest(req,lit:true)", "Config.HTTPTrace.TraceEnabled: req=req.WithContext(httptrace.WithClientTrace(req.Context(),local))", "DebugLog: recv.Log.Debug(lit:\"Prepared ammo to shoot\",zap.Stringer(lit:\"url\",req.URL))"] := rfl

/-- shared-client: the pool is built by WarmUp with `client-number` (at least one) clients, each from the gun's own
constructor with the gun's own client configuration and target; Bind takes the pool's next client; `Next` advances the
counter BEFORE it indexes (`clientOf`: the k-th gun gets `pool[(k+1) % len]`) -/
theorem sharedClient_shape :
    Gen.HttpWire.sharedClient = ["prepareClientPool: see sharedPool, sharedPoolFill", "createSharedDeps: def:=recv.prepareClientPool() ; if(!=(.prepareClientPool()#1,nil)){return nil,.prepareClientPool()#1} ; return &composite:SharedDeps,nil", "WarmUp: return recv.createSharedDeps(param0)", "Bind: def:=param1.Shared.(type) ; if(&&(param1.Shared.(type)#1,!=(param1.Shared.(type)#0.clientPool,nil))){recv.Client=param1.Shared.(type)#0.clientPool.Next()}", "NewBaseGun ClientConstructor: return param0(param1.Client,param1.Target)", "clientpool.Add: recv.pool=append(recv.pool,param0)", "clientpool.Next: if(==(len(recv.pool),lit:0)){var;return zero} ; def:=recv.i.Add(lit:1) ; return recv.pool[%(conv(recv.i.Add(lit:1)),len(recv.pool))]"] := rfl

/-- the end of a pass in the four Scan loops: the pass is counted and checked against `passes`, the common header of
uri/uripost is replaced by an EMPTY map (`scanAll` starts every pass with `[]`), the file is read again from offset 0 with a
fresh scanner / reset reader / new json.Decoder; readLine / readBlock work on the decoder's own header map, which therefore
persists across the lines of one pass (`scanUri` threads `common`) -/
theorem scanWrap_shape :
    Gen.HttpWire.scanWrap = ["uriDecoder wrap: continue ; def:=recv.file.Seek(lit:0,lit:0) ; if(!=(local,nil)){return nil,local} ; if(&&(!=(recv.config.Passes,lit:0),>=(recv.passNum,recv.config.Passes))){return nil,ErrPassLimit} ; if(==(recv.ammoNum,lit:0)){return nil,ErrNoAmmo} ; recv.Header=composite:http.Header ; recv.line=lit:0 ; recv.passNum++ ; recv.scanner=new-reader(recv.file)", "uriDecoder reads: readLine(local,recv.Header)", "uripostDecoder wrap: def:=recv.file.Seek(lit:0,lit:0) ; if(!=(local,nil)){return nil,local} ; if(&&(!=(recv.config.Passes,lit:0),>=(recv.passNum,recv.config.Passes))){return nil,ErrPassLimit} ; if(==(recv.ammoNum,lit:0)){return nil,ErrNoAmmo} ; recv.header=make(http.Header) ; recv.passNum++ ; recv.reader.Reset(recv.file)", "uripostDecoder reads: readBlock(recv.reader,recv.header)", "rawDecoder wrap: continue ; def:=recv.file.Seek(lit:0,lit:0) ; if(!=(local,nil)){return nil,local} ; if(&&(!=(recv.config.Passes,lit:0),>=(recv.passNum,recv.config.Passes))){return nil,ErrPassLimit} ; if(==(recv.ammoNum,lit:0)){return nil,ErrNoAmmo} ; recv.passNum++ ; recv.reader.Reset(recv.file)", "jsonlineDecoder wrap: _,local=recv.file.Seek(lit:0,lit:0) ; if(!=(local,nil)){return nil,local} ; if(!=(local,nil)){return nil,local} ; if(&&(!=(recv.config.Passes,lit:0),>=(recv.passNum,recv.config.Passes))){return nil,ErrPassLimit} ; if(==(recv.ammoNum,lit:0)){return nil,ErrNoAmmo} ; local=recv.scanner.Err() ; recv.decoder=new-reader(recv.file) ; recv.line=lit:0 ; recv.passNum++"] := rfl

/-- the provider: the `uris` option is the file `strings.Join(uris, "\n")`; Acquire builds the request of the ammo it took from
the sink, lets the middlewares (none by default) see it and hands THAT request to the gun; Release gives the ammo back to
the decoder unless the ammo is preloaded (preloaded ammo is used again, `provide`) -/
theorem provider_shape :
    Gen.HttpWire.urisSource = ["def:=bytes.NewReader(conv(strings.Join(param0.Uris,lit:\"\\n\")))", "def:=conv(bytes.NewReader(conv(strings.Join(param0.Uris,lit:\"\\n\"))))", "return conv(bytes.NewReader(conv(strings.Join(param0.Uris,lit:\"\\n\")))),&composite:fakeCloser,nil"] ∧
    Gen.HttpWire.providerAcquire = ["def:=<-recv.Sink", "if(!<-recv.Sink#1){return nil,lit:false}", "def:=<-recv.Sink#0.BuildRequest()", "if(!=(.BuildRequest()#1,nil)){return <-recv.Sink#0,lit:false}", "range(recv.Middlewares){def:=val.UpdateRequest(.BuildRequest()#0);if(!=(val.UpdateRequest(.BuildRequest()#0),nil)){return <-recv.Sink#0,lit:false}}", "return ammo.NewGunAmmo(.BuildRequest()#0,<-recv.Sink#0.Tag(),recv.NextID()),<-recv.Sink#1"] ∧
    Gen.HttpWire.providerRelease = ["if(recv.Preload){return }", "recv.Decoder.Release(param0)"] := ⟨rfl, rfl, rfl⟩

/-! ### round 4: which configurations get a pool of shared clients -/

/-- base.go prepareClientPool, translated statement by statement (`Gen.HttpWire.sharedPool`), IS the model's `sharedPool`:
no pool unless `shared-client.enabled`, whatever `client-number` says; with it, `client-number` clients, one when the number
is below one. Proved by case analysis on the switch and linear arithmetic on the number, so the guards may be written and
ordered in any equivalent way; a change of WHICH configurations get a pool, or of its size, is refused. -/
theorem sharedPool_eq (enabled : Bool) (n : Int) : Gen.HttpWire.sharedPool enabled n = sharedPool enabled n := by
  unfold Gen.HttpWire.sharedPool
  -- both values of the switch; every `if` / `let` of the regenerated function split into its branches; each leaf is closed by
  -- reflexivity, by linear arithmetic on the pool size, or refuted by its own path condition — whatever the order of the guards
  cases enabled <;>
    simp only [sharedPool, Bool.not_true, Bool.not_false, Bool.false_eq_true, if_true, if_false, decide_eq_true_eq] <;>
    (repeat' split) <;> first | rfl | (simp only [Option.some.injEq] <;> omega) | (exfalso; omega)

/-- the pool is filled by the gun's own client constructor (same configuration and target as a per-instance client) -/
theorem sharedPoolFill_shape : Gen.HttpWire.sharedPoolFill = ["Add(recv.ClientConstructor())"] := rfl

/-! ### round 4: util.DecodeHeader -/

private theorem last_idx (l : Str) (x : Nat) (hne : l ≠ []) :
    (l.getD (l.length - 1) 0 != x) = decide (l.getLast? ≠ some x) := by
  rw [List.getLast?_eq_getElem?, List.getD_eq_getElem?_getD]
  have : l.length - 1 < l.length := by
    cases l with
    | nil => exact absurd rfl hne
    | cons a t => simp
  rw [List.getElem?_eq_getElem this]
  by_cases e : l[l.length - 1] = x <;> simp [bne, e]

private theorem head_idx (l : Str) (x : Nat) (hne : l ≠ []) : (l.getD 0 0 != x) = decide (l.head? ≠ some x) := by
  cases l with
  | nil => exact absurd rfl hne
  | cons a t => by_cases e : a = x <;> simp [bne, e]

set_option linter.unusedSimpArgs false in
/-- util.DecodeHeader, translated statement by statement with the conditions under which Go evaluates its index and slice
expressions without a run-time panic (`Gen.HttpWire.decodeHeader`), never panics and IS the model's `decodeHeader`: `[key: value]`
with at least three bytes, cut at the FIRST colon, both parts trimmed, an empty key refused. (`cut` / `trim` stand for
strings.Cut / strings.TrimSpace.) -/
theorem decodeHeader_eq (h : Str) : Gen.HttpWire.decodeHeader h = some (decodeHeader h) := by
  unfold Gen.HttpWire.decodeHeader decodeHeader
  by_cases hl : h.length < 3
  · have hi : ((h.length : Int) < 3) := by omega
    have hi2 : ((h.length : Int) ≤ 2) := by omega
    simp [hl, hi, hi2]
  · have hne : h ≠ [] := by intro e; simp [e] at hl
    have hi : ¬ ((h.length : Int) < 3) := by omega
    have hi2 : ¬ ((h.length : Int) ≤ 2) := by omega
    have e1 : ((h.length : Int) - 1).toNat = h.length - 1 := by omega
    have hd : (h.drop 1).take (h.length - 1 - 1) = (h.drop 1).dropLast := by
      rw [List.dropLast_eq_take, List.length_drop]
    have p1 : (0:Int) < h.length := by omega
    have p2 : (0:Int) ≤ (h.length:Int) - 1 := by omega
    have p3 : (h.length:Int) - 1 < h.length := by omega
    have p4 : (1:Int) ≤ (h.length:Int) - 1 := by omega
    have p5 : (h.length:Int) - 1 ≤ h.length := by omega
    have hh := head_idx h 91 hne
    have hlast := last_idx h 93 hne
    -- the index / slice conditions hold, the tests on the first and last byte are the model's
    simp only [hl, hi, hi2, e1, p1, p2, p3, p4, p5, hh, hlast, hd, decide_true, decide_false, Int.toNat_zero, Int.toNat_one,
      Int.le_refl, Bool.or_false, Bool.false_or, Bool.true_or, Bool.or_true, Bool.and_true, Bool.true_and, Bool.and_self,
      Bool.not_true, Bool.not_false, Bool.false_eq_true, if_true, if_false, false_or]
    by_cases c1 : h.head? = some 91 <;> by_cases c2 : h.getLast? = some 93 <;>
      simp only [c1, c2, ne_eq, not_true_eq_false, not_false_eq_true, decide_true, decide_false, Bool.or_false, Bool.false_or,
        Bool.true_or, Bool.or_true, Bool.false_eq_true, if_true, if_false, or_false, false_or, or_true, true_or]
    cases hc : cut (List.drop 1 h).dropLast 58 with
    | none => simp
    | some p =>
      obtain ⟨k, v⟩ := p
      by_cases hk : trim k = [] <;> simp [hk]

/-! ### round 4: util.DecodeHTTPConfigHeaders -/

/-- the loop of DecodeHTTPConfigHeaders over the regenerated round `Gen.HttpWire.configHeaderStep`: the first bad string ends it
with its error; `none` = a round would panic -/
def runConfigHeaders : Hdr → List Str → Option (Except HdrErr Hdr)
  | st, [] => some (.ok st)
  | st, h :: rest =>
    match Gen.HttpWire.configHeaderStep st h with
    | none => none
    | some (.error e) => some (.error e)
    | some (.ok st') => runConfigHeaders st' rest

theorem runConfigHeaders_eq (strs : List Str) (acc : Hdr) :
    runConfigHeaders acc strs =
      some (match decodeAll strs with
        | .error e => .error e
        | .ok kvs => .ok (kvs.foldl (fun h kv => hadd h kv.1 kv.2) acc)) := by
  induction strs generalizing acc with
  | nil => rfl
  | cons s rest ih =>
    simp only [runConfigHeaders, Gen.HttpWire.configHeaderStep, decodeHeader_eq, Option.map_some, decodeAll]
    cases hd : decodeHeader s with
    | error e => rfl
    | ok kv =>
      obtain ⟨k, v⟩ := kv
      simp only [ih]
      cases decodeAll rest with
      | error e => rfl
      | ok kvs => rfl

/-- **The `headers` option is decoded as the model says**: the regenerated loop of DecodeHTTPConfigHeaders, started with the
regenerated (empty) map, never panics, stops at the first bad string with its error, and otherwise ADDS every decoded pair in
order — the model's `decodeAll` followed by `confHdr`. -/
theorem configHeaders_eq (strs : List Str) :
    runConfigHeaders Gen.HttpWire.configHeadersInit strs =
      some (match decodeAll strs with
        | .error e => .error e
        | .ok kvs => .ok (confHdr kvs)) := runConfigHeaders_eq strs []

theorem http2NeedsSSL_eq (ssl : Bool) : constructible .http2 ssl = (!Gen.HttpWire.http2NeedsSSL || ssl) := by
  cases ssl <;> rfl

/-! ### round 6: code the anchored files depend on -/

/-- lib/netutil ValidHTTPMethod (a method is a non-empty token, "" stands for GET: the model's `validMethod`); the ammo handed
to the gun carries the request BuildRequest made, its tag and id, nothing else (`NewGunAmmo`, `GunAmmo.Request`); `Ammo.Setup`
stores method / url / body / header / tag AS GIVEN after the two refusals (no copy, no normalisation: the model's `buildAmmo`
reads them back unchanged) and `Reset` clears them; `NewDecoder` decodes the `headers` option once and hands it to the decoder
of the configured type; the default gun configurations: `ssl` false for the http and connect guns, true for http2, the optional
features off, the client = DefaultClientConfig() (no redirects, DefaultTransportConfig, dialer with dns-cache, 3 s timeout); NewDialer
copies the dialer options and wraps the dialer into the DNS cache only when `dns-cache` is on. -/
theorem r6_shape :
    Gen.HttpWire.validMethodSrc = ["ValidHTTPMethod: if(==(param0,lit:\"\")){param0=lit:\"GET\"} ; return &&(>(len(param0),lit:0),==(strings.IndexFunc(param0,isNotToken),lit:-1))", "isNotToken: return !httpguts.IsTokenRune(param0)"] ∧
    Gen.HttpWire.gunAmmoSrc = ["GunAmmo.Request: def:=netsample.Acquire(recv.tag) ; netsample.Acquire(recv.tag).SetID(recv.id) ; return recv.req,netsample.Acquire(recv.tag)", "GunAmmo.IsInvalid: return recv.isInvalid", "NewGunAmmo: return GunAmmo{id=param2,req=param0,tag=param1}"] ∧
    Gen.HttpWire.ammoSetupSrc = ["Ammo.Setup: if(def:=netutil.ValidHTTPMethod(param0);!netutil.ValidHTTPMethod(param0)){return errors.New(concat(lit:\"invalid HTTP method \",param0))} ; if(def:=url.Parse(param1);!=(url.Parse(param1)#1,nil)){return fmt.Errorf(lit:\"invalid URL %s; err %w \",param1,url.Parse(param1)#1)} ; recv.method=param0 ; recv.body=param2 ; recv.url=param1 ; recv.tag=param4 ; recv.header=param3 ; return nil", "Ammo.Reset: recv.method=lit:\"\" ; recv.body=nil ; recv.url=lit:\"\" ; recv.tag=lit:\"\" ; recv.header=nil", "RawAmmo.Reset: recv.buff=nil ; recv.filePosition=lit:0 ; recv.tag=lit:\"\" ; recv.commonHeaders=nil"] ∧
    Gen.HttpWire.newDecoderSrc = ["NewDecoder: def:=util.DecodeHTTPConfigHeaders(param0.Headers) ; if(!=(util.DecodeHTTPConfigHeaders(param0.Headers)#1,nil)){return } ; stmt:switch conf.Decoder { case config.DecoderJSONLine: d, err = newJsonlineDecoder(file, conf, decodedConfigHeaders) case config.DecoderRaw: d = newRawDecoder(file, conf, decodedConfigHeaders) case config.DecoderURI: d = newURIDecoder(file, conf, decodedConfigHeaders) case config.DecoderURIPost: d = newURIPostDecoder(file, conf, decodedConfigHeaders) default: err = ErrUnknown } ; return "] ∧
    Gen.HttpWire.gunDefaults = ["DefaultHTTPGunConfig: return GunConfig{AnswLog=AnswLogConfig{Enabled=const:false,Filter=const:\"error\",Path=const:\"answ.log\"},AutoTag=AutoTagConfig{Enabled=const:false,NoTagOnly=const:true,URIElements=const:2},Client=DefaultClientConfig(),HTTPTrace=HTTPTraceConfig{DumpEnabled=const:false,TraceEnabled=const:false},SSL=const:false}", "DefaultHTTP2GunConfig: return GunConfig{AnswLog=AnswLogConfig{Enabled=const:false,Filter=const:\"error\",Path=const:\"answ.log\"},AutoTag=AutoTagConfig{Enabled=const:false,NoTagOnly=const:true,URIElements=const:2},Client=DefaultClientConfig(),HTTPTrace=HTTPTraceConfig{DumpEnabled=const:false,TraceEnabled=const:false},SSL=const:true}", "DefaultConnectGunConfig: return GunConfig{AnswLog=AnswLogConfig{Enabled=const:false,Filter=const:\"error\",Path=const:\"answ.log\"},AutoTag=AutoTagConfig{Enabled=const:false,NoTagOnly=const:true,URIElements=const:2},Client=DefaultClientConfig(),HTTPTrace=HTTPTraceConfig{DumpEnabled=const:false,TraceEnabled=const:false},SSL=const:false}"] ∧
    Gen.HttpWire.clientDefaults = ["DefaultClientConfig: return ClientConfig{Dialer=DefaultDialerConfig(),Redirect=const:false,Transport=DefaultTransportConfig()}", "DefaultDialerConfig: return DialerConfig{DNSCache=const:true,DualStack=const:true,KeepAlive=const:120000000000,Timeout=const:3000000000}", "NewDialer: def:=&net.Dialer{DualStack=param0.DualStack,FallbackDelay=param0.FallbackDelay,KeepAlive=param0.KeepAlive,Timeout=param0.Timeout} ; if(!param0.DNSCache){return &composite:net.Dialer} ; return netutil.NewDNSCachingDialer(&composite:net.Dialer,netutil.DefaultDNSCache)"] :=
  ⟨rfl, rfl, rfl, rfl, rfl, rfl⟩

end Pandora.Bridge.HttpWire
