/-
Bridge C17: the regenerated facts (`Pandora/Gen/Config.lean`, rewritten from /repo's current source on every check
run) are what the hand-written model `Pandora.Model.C17` assumes.  If the source changes any of them this file stops
compiling and the check reports a broken obligation.
-/
import Pandora.Gen.Config
import Pandora.Model.C17

namespace Pandora.Bridge.Config
open Pandora.Model.C17

/-- `newDecoderConfig` + position of `VariableInjectHook` in `DefaultHooks()` are the model's flags -/
theorem flags_eq :
    (⟨Gen.Config.errorUnused, Gen.Config.zeroFields, Gen.Config.defaultHooks.head? == some "VariableInjectHook",
      Gen.Config.defaultHooks.contains "WholeNumberHook"⟩ : Flags) = repoFlags := by decide

/-- the model covers the strict kind switch only -/
theorem weaklyTyped_off : Gen.Config.weaklyTypedInput = false := rfl

/-- squash only through the `,squash` tag; no unset-field errors; untagged fields are decoded -/
theorem other_flags : Gen.Config.squashFlag = false ∧ Gen.Config.errorUnset = false ∧
    Gen.Config.ignoreUntaggedFields = false ∧ Gen.Config.tagName = "config" := ⟨rfl, rfl, rfl, rfl⟩

/-- no other field of `mapstructure.DecoderConfig` is set (`MatchName` stays `strings.EqualFold`, no `Metadata`) -/
theorem decoderFields_eq :
    Gen.Config.decoderFields = ["DecodeHook", "ErrorUnused", "Result", "TagName", "WeaklyTypedInput", "ZeroFields"] := rfl

/-- the hook chain: placeholders first, then the whole-number guard, the text / duration / url / ip / size hooks, then (core/import) the sink
string shortcut, the schedule list shortcut and the two plugin hooks — the order `decode` applies them in -/
theorem hooks_eq :
    Gen.Config.hooksInit = "DefaultHooks()" ∧
    Gen.Config.defaultHooks = ["VariableInjectHook", "WholeNumberHook", "DebugHook", "TextUnmarshallerHook",
      "mapstructure.StringToTimeDurationHookFunc()", "StringToURLHook", "StringToIPHook", "StringToDataSizeHook"] ∧
    Gen.Config.importHooks = ["sinkStringHook", "scheduleSliceToCompositeConfigHook", "pluginconfig.AddHooks()"] ∧
    Gen.Config.pluginHooks = ["Hook", "FactoryHook"] ∧
    Gen.Config.pluginNameKey = "type" := ⟨rfl, rfl, rfl, rfl, rfl⟩

/-- `WholeNumberHook` as `decodeScalarWith` has it: only a float source, only integer target kinds (time.Duration is
an int64), refused when the number has a fractional part (`fractional`) -/
theorem whole_number_hook :
    Gen.Config.wholeNumberPass = "f != reflect.Float32 && f != reflect.Float64" ∧
    Gen.Config.wholeNumberKinds = ["Int", "Int8", "Int16", "Int32", "Int64", "Uint", "Uint8", "Uint16", "Uint32", "Uint64"] ∧
    Gen.Config.wholeNumberRefuses = "math.IsInf(v, 0) || v != math.Trunc(v)" := ⟨rfl, rfl, rfl⟩

/-- the registered resolvers are the ones `resolveTag` knows: `""` and `env` read the environment, `property` a file -/
theorem resolvers_eq :
    Gen.Config.tagResolvers = [("", "confutil.EnvTagResolver"), ("env", "confutil.EnvTagResolver"),
      ("property", "confutil.PropertyTagResolver")] ∧
    Gen.Config.resolverBindings = [("confutil.EnvTagResolver", "envTokenResolver"),
      ("confutil.PropertyTagResolver", "propertyTokenResolver")] := ⟨rfl, rfl⟩

/-- resolver errors are errors: unset variable, malformed / unreadable / incomplete property file; they are returned;
a tag of an unregistered type is left alone -/
theorem resolver_errors :
    Gen.Config.envUnsetIsError = true ∧ Gen.Config.propertyMissingIsError = true ∧
    Gen.Config.propertyErrorReturns.length = 3 ∧
    Gen.Config.resolverErrorReturned = true ∧ Gen.Config.unregisteredTagSkipped = true := ⟨rfl, rfl, rfl, rfl, rfl⟩

/-- `propertyTokenResolver` as `lookupProp` / `findProp` / `lineKV` have it: the argument is cut at the first `#`; the
file is read line by line; only a line that contains `=` is an entry; it is split at its FIRST `=` and the left part is
compared with the key by `==` (exact: no prefix, no trimming, no case folding); the first match returns the right part -/
theorem property_lookup :
    Gen.Config.propertyCut = "filename, property, ok := strings.Cut(in, \"#\")" ∧
    Gen.Config.propertyLoop = ["for scanner.Scan()", "line := scanner.Text()", "if strings.Contains(line, \"=\") {",
      "kv := strings.SplitN(line, \"=\", 2)", "if kv[0] == property {", "return kv[1], nil", "}", "}"] := ⟨rfl, rfl⟩

/-- the plugin hooks as the `plugin` case of `decode` has them: exactly one string `type` key (compared lower-cased), and
the fillConf closure ALWAYS runs `config.DecodeAndValidate(confData, conf)` on the rest of the block — also when the rest
is empty — and returns its error; `Hook` / `FactoryHook` hand that closure to `plugin.New` / `plugin.NewFactory` -/
theorem plugin_fill :
    Gen.Config.parseConfConds = ["!ok", "PluginNameKey == strings.ToLower(key)", "err != nil",
      "len(names) == 0", "len(names) > 1"] ∧
    Gen.Config.fillConfStmts = ["err := config.DecodeAndValidate(confData, conf)", "if err != nil", "return err"] ∧
    Gen.Config.fillConfReturns = ["return err"] ∧
    Gen.Config.pluginHookCalls = ["Hook: plugin.New(t, name, fillConf)", "FactoryHook: plugin.NewFactory(t, name, fillConf)"] :=
  ⟨rfl, rfl, rfl, rfl⟩

/-- `DecodeAndValidate` = `Decode`, then (only without error) `Validate` — `settle` / `decodeAndValidate` -/
theorem decode_then_validate :
    Gen.Config.decodeAndValidateStmts = ["err := Decode(conf, result)", "if err != nil {", "return err", "}", "return Validate(result)"] ∧
    Gen.Config.validateStmts = ["return errors.WithStack(defaultValidator.Struct(value))"] := ⟨rfl, rfl⟩

/-- the validator reads the `validate` tag; the repo's own validations (`min-time`, `endpoint` are the ones `tagFail`
models) are registered under these names and decide as `tagFail` says (`min <= t`; `host:port` with an optional host) -/
theorem validator_table :
    Gen.Config.validateTagName = "validate" ∧
    Gen.Config.registeredValidations = [("min-time", "MinTimeValidation"), ("max-time", "MaxTimeValidation"),
      ("min-size", "MinSizeValidation"), ("max-size", "MaxSizeValidation"), ("endpoint", "EndpointStringValidation"),
      ("url-path", "URLPathStringValidation")] ∧
    Gen.Config.validationReturns = [("MinTimeValidation", "ok && min <= t"),
      ("EndpointStringValidation", "err == nil && (host == \"\" || govalidator.IsHost(host)) && govalidator.IsPort(port)")] :=
  ⟨rfl, rfl, rfl⟩

/-- the constraints of the component configs (`validate` struct tags), pinned: a tag that is dropped, renamed (`valid:`)
or weakened in the source breaks this lemma; harness/cmd/c17 carries the same table and still generates the failing input -/
theorem validate_tags :
    Gen.Config.validateTags = [
      ("cli.expvarConfig", "Port", "required"),
      ("components/guns/grpc.AnswLogConfig", "Filter", "omitempty,eq=all|eq=warning|eq=error"),
      ("components/guns/grpc.GunConfig", "Target", "required"),
      ("components/guns/grpc/scenario.AnswLogConfig", "Filter", "omitempty,eq=all|eq=warning|eq=error"),
      ("components/guns/grpc/scenario.GunConfig", "Target", "required"),
      ("components/guns/http.AnswLogConfig", "Filter", "omitempty,eq=all|eq=warning|eq=error"),
      ("components/guns/http.AutoTagConfig", "URIElements", "min=1"),
      ("components/guns/http.GunConfig", "Target", "endpoint,required"),
      ("components/providers/grpc/grpcjson.Config", "Limit", "min=0"),
      ("components/providers/grpc/grpcjson.Config", "Passes", "min=0"),
      ("core/aggregator.EncoderAggregatorConfig", "Sink", "required"),
      ("core/aggregator.ReporterConfig", "SampleQueueSize", "min=1"),
      ("core/aggregator/netsample.PhoutConfig", "SampleQueueSize", "min=0"),
      ("core/datasink.FileConfig", "Path", "required"),
      ("core/datasource.FileConfig", "Path", "required"),
      ("core/datasource.InlineConfig", "Data", "required"),
      ("core/engine.Config", "Pools", "required,dive"),
      ("core/engine.InstancePoolConfig", "Aggregator", "required"),
      ("core/engine.InstancePoolConfig", "NewGun", "required"),
      ("core/engine.InstancePoolConfig", "NewRPSSchedule", "required"),
      ("core/engine.InstancePoolConfig", "Provider", "required"),
      ("core/engine.InstancePoolConfig", "StartupSchedule", "required"),
      ("core/provider.AmmoQueueConfig", "AmmoQueueSize", "min=1"),
      ("core/provider.DecodeProviderConfig", "Limit", "min=0"),
      ("core/provider.DecodeProviderConfig", "Passes", "min=0"),
      ("core/provider.DecodeProviderConfig", "Source", "required"),
      ("core/schedule.ConstConfig", "Duration", "min-time=1ms"),
      ("core/schedule.ConstConfig", "Ops", "min=0"),
      ("core/schedule.InstanceStepConfig", "From", "min=0"),
      ("core/schedule.InstanceStepConfig", "Step", "min=1"),
      ("core/schedule.InstanceStepConfig", "StepDuration", "min-time=1ms"),
      ("core/schedule.InstanceStepConfig", "To", "min=0"),
      ("core/schedule.LineConfig", "Duration", "min-time=1ms"),
      ("core/schedule.LineConfig", "From", "min=0"),
      ("core/schedule.LineConfig", "To", "min=0"),
      ("core/schedule.OnceConfig", "Times", "min=1"),
      ("core/schedule.StepConfig", "Duration", "min-time=1ms"),
      ("core/schedule.StepConfig", "From", "min=0"),
      ("core/schedule.StepConfig", "Step", "min=1"),
      ("core/schedule.StepConfig", "To", "min=0"),
      ("core/schedule.UnlimitedConfig", "Duration", "min-time=1ms")] := rfl

/-- the grammar `scan` models and the condition under which the resolved text is cast -/
theorem tag_grammar :
    Gen.Config.tagRegexp = "\\$\\{(?:([^}]+?):)?([^{}]+?)\\}" ∧
    Gen.Config.castCondition = "len(tokens) == 1 && strings.TrimSpace(s) == tokens[0].string" := ⟨rfl, rfl⟩

/-- `confutil.cast` as `castTo` has it: signed kinds parse signed, UNSIGNED KINDS PARSE UNSIGNED, each at the bit size
of the target, base 0; floats at 64 bits; bool through ParseBool; strings unchanged -/
theorem cast_table :
    Gen.Config.castTable = [("Bool", "castBool"), ("Int", "castInt"), ("Int8", "castInt"), ("Int16", "castInt"),
      ("Int32", "castInt"), ("Int64", "castInt"), ("Uint", "castUint"), ("Uint8", "castUint"), ("Uint16", "castUint"),
      ("Uint32", "castUint"), ("Uint64", "castUint"), ("Float32", "castFloat"), ("Float64", "castFloat"),
      ("String", "return v")] ∧
    Gen.Config.castParse = [("castBool", "strconv.ParseBool"), ("castInt", "strconv.ParseInt 0 t.Bits()"),
      ("castUint", "strconv.ParseUint 0 t.Bits()"), ("castFloat", "strconv.ParseFloat 64")] ∧
    Gen.Config.castKinds = [("castBool", []), ("castInt", ["Int", "Int8", "Int16", "Int32", "Int64"]),
      ("castUint", ["Uint", "Uint8", "Uint16", "Uint32", "Uint64"]), ("castFloat", ["Float32", "Float64"])] :=
  ⟨rfl, rfl, rfl⟩

/-- `cli.readConfig`: the key, the value, and that the defaulting happens before the decode -/
theorem discard_eq :
    Gen.Config.discardKey = "discard_overflow" ∧ Gen.Config.discardDefault = discardDefault ∧
    Gen.Config.discardBeforeDecode = true := ⟨rfl, rfl, rfl⟩

end Pandora.Bridge.Config
