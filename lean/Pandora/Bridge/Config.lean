/-
Bridge C17: the regenerated facts (`Pandora/Gen/Config.lean`, rewritten from /repo's current source on every check
run) are what the hand-written model `Pandora.Model.C17` assumes.  If the source changes any of them this file stops
compiling and the check reports a broken obligation.
-/
import Pandora.Gen.Config
import Pandora.Model.C17

namespace Pandora.Bridge.Config
open Pandora.Model.C17

/-- `newDecoderConfig` + position of `VariableInjectHook` in `DefaultHooks()` are the model's flags -/
theorem flags_eq :
    (⟨Gen.Config.errorUnused, Gen.Config.zeroFields, Gen.Config.defaultHooks.head? == some "VariableInjectHook",
      Gen.Config.defaultHooks.contains "WholeNumberHook", Gen.Config.defaultHooks.contains "NumberRangeHook"⟩ : Flags) =
      repoFlags := by decide

/-- the model covers the strict kind switch only -/
theorem weaklyTyped_off : Gen.Config.weaklyTypedInput = false := rfl

/-- squash only through the `,squash` tag; no unset-field errors; untagged fields are decoded -/
theorem other_flags : Gen.Config.squashFlag = false ∧ Gen.Config.errorUnset = false ∧
    Gen.Config.ignoreUntaggedFields = false ∧ Gen.Config.tagName = "config" := ⟨rfl, rfl, rfl, rfl⟩

/-- no other field of `mapstructure.DecoderConfig` is set (`MatchName` stays `strings.EqualFold`, no `Metadata`) -/
theorem decoderFields_eq :
    Gen.Config.decoderFields = ["DecodeHook", "ErrorUnused", "Result", "TagName", "WeaklyTypedInput", "ZeroFields"] := rfl

/-- the hook chain: placeholders first, then the whole-number and number-range guards, the text / duration / url / ip / size hooks, then (core/import) the sink
string shortcut, the schedule list shortcut and the two plugin hooks — the order `decode` applies them in -/
theorem hooks_eq :
    Gen.Config.hooksInit = "DefaultHooks()" ∧
    Gen.Config.defaultHooks = ["VariableInjectHook", "WholeNumberHook", "NumberRangeHook", "DebugHook", "TextUnmarshallerHook",
      "mapstructure.StringToTimeDurationHookFunc()", "StringToURLHook", "StringToIPHook", "StringToDataSizeHook"] ∧
    Gen.Config.importHooks = ["sinkStringHook", "scheduleSliceToCompositeConfigHook", "pluginconfig.AddHooks()"] ∧
    Gen.Config.pluginHooks = ["Hook", "FactoryHook"] ∧
    Gen.Config.pluginNameKey = "type" := ⟨rfl, rfl, rfl, rfl, rfl⟩

/-- `WholeNumberHook` as `decodeScalarWith` has it: only a float source, only integer target kinds (time.Duration is
an int64), refused when the number has a fractional part (`fractional`) -/
theorem whole_number_hook :
    Gen.Config.wholeNumberPass = "f != reflect.Float32 && f != reflect.Float64" ∧
    Gen.Config.wholeNumberKinds = ["Int", "Int8", "Int16", "Int32", "Int64", "Uint", "Uint8", "Uint16", "Uint32", "Uint64"] ∧
    Gen.Config.wholeNumberRefuses = "math.IsInf(v, 0) || v != math.Trunc(v)" := ⟨rfl, rfl, rfl⟩

/-- `NumberRangeHook` as `fitsKind` / `decodeScalarWith` have it (x1 the target kind, x2 the number; locals replaced by
what they are bound to, so renamed or reordered declarations do not disturb the pin): an integer target of width b holds an
integer source iff shifting it right by b-1 leaves 0 or -1 (−2^(b−1) ≤ n < 2^(b−1)), an unsigned source iff that shift
leaves 0, a float source iff −2^(b−1) ≤ x < 2^(b−1); an unsigned target of width b holds a non-negative integer iff the
shift by b leaves 0 (64 bits: always), a float iff x < 2^b (a negative source is passed on: the kind switch reports it); a
float32 holds a finite float iff its magnitude is at most math.MaxFloat32; the hook refuses exactly when the verdict is
false; the widths are 8, 16, 32, 64 and strconv.IntSize for Int / Uint -/
theorem number_range_hook :
    Gen.Config.numberRangeTable = [
      ("Float32", "Float32,Float64", "math.IsInf(reflect.ValueOf(x2).Float(), 0) || !(math.Abs(reflect.ValueOf(x2).Float()) > math.MaxFloat32)"),
      ("Int,Int8,Int16,Int32,Int64", "Float32,Float64", "-math.Ldexp(1, kindBits(x1)-1) <= reflect.ValueOf(x2).Float() && reflect.ValueOf(x2).Float() < math.Ldexp(1, kindBits(x1)-1)"),
      ("Int,Int8,Int16,Int32,Int64", "Int,Int8,Int16,Int32,Int64", "reflect.ValueOf(x2).Int()>>(kindBits(x1)-1) == 0 || reflect.ValueOf(x2).Int()>>(kindBits(x1)-1) == -1"),
      ("Int,Int8,Int16,Int32,Int64", "Uint,Uint8,Uint16,Uint32,Uint64", "reflect.ValueOf(x2).Uint()>>(kindBits(x1)-1) == 0"),
      ("Uint,Uint8,Uint16,Uint32,Uint64", "Float32,Float64", "reflect.ValueOf(x2).Float() < math.Ldexp(1, kindBits(x1))"),
      ("Uint,Uint8,Uint16,Uint32,Uint64", "Int,Int8,Int16,Int32,Int64", "reflect.ValueOf(x2).Int() < 0 || kindBits(x1) == 64 || reflect.ValueOf(x2).Int()>>kindBits(x1) == 0"),
      ("Uint,Uint8,Uint16,Uint32,Uint64", "Uint,Uint8,Uint16,Uint32,Uint64", "kindBits(x1) == 64 || reflect.ValueOf(x2).Uint()>>kindBits(x1) == 0")] ∧
    Gen.Config.numberRangeRefuses = "!VERDICT" ∧
    Gen.Config.kindBitsTable = [("Int16,Uint16", "16"), ("Int32,Uint32", "32"), ("Int64,Uint64", "64"), ("Int8,Uint8", "8")] ∧
    Gen.Config.kindBitsDefault = "strconv.IntSize" := ⟨rfl, rfl, rfl, rfl⟩

/-- the registered resolvers are the ones `resolveTag` knows: `""` and `env` read the environment, `property` a file -/
theorem resolvers_eq :
    Gen.Config.tagResolvers = [("", "confutil.EnvTagResolver"), ("env", "confutil.EnvTagResolver"),
      ("property", "confutil.PropertyTagResolver")] ∧
    Gen.Config.resolverBindings = [("confutil.EnvTagResolver", "envTokenResolver"),
      ("confutil.PropertyTagResolver", "propertyTokenResolver")] := ⟨rfl, rfl⟩

/-- resolver errors are errors: unset variable, malformed / unreadable / incomplete property file; they are returned;
a tag of an unregistered type is left alone -/
theorem resolver_errors :
    Gen.Config.envUnsetIsError = true ∧ Gen.Config.propertyMissingIsError = true ∧
    Gen.Config.propertyErrorReturns.length = 3 ∧
    Gen.Config.resolverErrorReturned = true ∧ Gen.Config.unregisteredTagSkipped = true := ⟨rfl, rfl, rfl, rfl, rfl⟩

/-- `envTokenResolver` as `Model.lookupEnv` has it (round 6; read by what it returns on which path, see
gen/area_config_env.go): the value of `os.LookupEnv(<the name>)` when that reports the variable as set, an error when it
does not — on EVERY path: no second source (no scan of `os.Environ`, no `os.Getenv`, no `os.ExpandEnv`) answers for a
name that is not set, so a variable whose name differs in letter case only is not the variable (`C17_env_exact`).
Layout-independent: `if !ok { return "", err }; return val, nil`, an early `return v, nil` under `if v, found := …; found`
and an if/else regenerate to the same two rows. -/
theorem env_resolver_exact :
    Gen.Config.envResolverPaths = ["found:value,nil", "missing:empty,error"] ∧
    Gen.Config.envResolverOsCalls = ["os.LookupEnv"] := ⟨rfl, rfl⟩

/-- `propertyTokenResolver` as `lookupProp` / `findProp` / `lineKV` have it: the argument is cut at the first `#`; the
file is read line by line; only a line that contains `=` is an entry; it is split at its FIRST `=` and the left part is
compared with the key by `==` (exact: no prefix, no trimming, no case folding); the first match returns the right part.
Locals are printed by number in order of first appearance (x0 the argument, x1 file name, x2 the key, x3 ok, x6 the
scanner, x7 the line, x8 its two parts), so renaming them does not disturb the pin. -/
theorem property_lookup :
    Gen.Config.propertyCut = "x1, x2, x3 := strings.Cut(x0, \"#\")" ∧
    Gen.Config.propertyLoop = ["for x6.Scan()", "x7 := x6.Text()", "if strings.Contains(x7, \"=\") {",
      "x8 := strings.SplitN(x7, \"=\", 2)", "if x8[0] == x2 {", "return x8[1], nil", "}", "}"] := ⟨rfl, rfl⟩

/-- the shortcut hooks of core/import as `sinkMap` / the `plugin` case of `decode` have them: exactly the strings
`stdout`, `stderr`, `stdin` name a sink plugin by themselves, any other string is the `file` sink with `path` that string; a
list at a schedule position is `{type: composite, nested: <the list>}` -/
theorem shortcuts_eq :
    Gen.Config.sinkShortcutNames.map String.toList = ["stderr".toList, "stdin".toList, "stdout".toList] ∧
    (∀ n, sinkNames.contains n = (Gen.Config.sinkShortcutNames.map String.toList).contains n) ∧
    Gen.Config.sinkFallbackType = "file" ∧ Gen.Config.sinkFallbackEntries = ["path=data"] ∧
    sinkMap "out.log".toList = [("type".toList, .str Gen.Config.sinkFallbackType.toList), ("path".toList, .str "out.log".toList)] ∧
    Gen.Config.schedShortcutEntries = ["nested=data", "type=\"composite\""] := by
  refine ⟨by decide, ?_, rfl, rfl, rfl, rfl⟩
  intro n
  simp only [sinkNames, Gen.Config.sinkShortcutNames, List.map, List.contains_cons, List.contains_nil, Bool.or_false]
  cases h1 : n == "stdout".toList <;> cases h2 : n == "stderr".toList <;> cases h3 : n == "stdin".toList <;> rfl

/-- the plugin hooks as the `plugin` case of `decode` has them: exactly one string `type` key (compared lower-cased), and
an empty name is an error (it is no registered name: `decode` reports `pluginname`), and
the fillConf closure ALWAYS runs `config.DecodeAndValidate(confData, conf)` on the rest of the block — also when the rest
is empty — and returns its error; `Hook` / `FactoryHook` hand that closure to `plugin.New` / `plugin.NewFactory` -/
theorem plugin_fill :
    Gen.Config.parseConfConds = ["!x11", "PluginNameKey == strings.ToLower(x8)", "len(x7) == 0", "len(x7) > 1",
      "x2 == \"\"", "x5 != nil"] ∧
    Gen.Config.fillConfStmts = ["x13 := config.DecodeAndValidate(x6, x12)", "if x13 != nil", "return x13"] ∧
    Gen.Config.fillConfReturns = ["return x13"] ∧
    Gen.Config.pluginHookCalls = ["Hook: plugin.New(t, name, fillConf)", "FactoryHook: plugin.NewFactory(t, name, fillConf)"] :=
  ⟨rfl, rfl, rfl, rfl⟩

/-- `DecodeAndValidate` = `Decode`, then (only without error) `Validate` — `settle` / `decodeAndValidate` -/
theorem decode_then_validate :
    Gen.Config.decodeAndValidateStmts = ["x2 := Decode(x0, x1)", "if x2 != nil {", "return x2", "}", "return Validate(x1)"] ∧
    Gen.Config.validateStmts = ["return errors.WithStack(defaultValidator.Struct(x0))"] := ⟨rfl, rfl⟩

/-- the validator reads the `validate` tag; the repo's own validations are registered under these names -/
theorem validator_table :
    Gen.Config.validateTagName = "validate" ∧
    Gen.Config.registeredValidations = [("min-time", "MinTimeValidation"), ("max-time", "MaxTimeValidation"),
      ("min-size", "MinSizeValidation"), ("max-size", "MaxSizeValidation"), ("endpoint", "EndpointStringValidation"),
      ("url-path", "URLPathStringValidation")] := ⟨rfl, rfl⟩

/-- `EndpointStringValidation`, whatever its layout (single expression, early returns, renamed locals): host, port and
error come from `net.SplitHostPort` of the value, and as a function of its four atomic conditions the result is
`err == nil && (host == "" || IsHost(host)) && IsPort(port)` — `endpointShape`, what `endpointOk` computes.  An empty
host does NOT excuse the port: `endpointShape true true _ false = false`. -/
theorem endpoint_validation :
    Gen.Config.vEndpointBinds = ["net.SplitHostPort(arg0)"] ∧
    Gen.Config.vEndpointAtoms = ["call:govalidator.IsHost(net.SplitHostPort#0)",
      "call:govalidator.IsPort(net.SplitHostPort#1)", "empty:net.SplitHostPort#0", "eqnil:net.SplitHostPort#2"] ∧
    (∀ isHost isPort hostEmpty errNil,
      Gen.Config.vEndpoint isHost isPort hostEmpty errNil = endpointShape errNil hostEmpty isHost isPort) ∧
    (∀ isHost, endpointShape true true isHost false = false) := by
  refine ⟨rfl, rfl, ?_, ?_⟩
  · intro a b c d; cases a <;> cases b <;> cases c <;> cases d <;> rfl
  · intro a; cases a <;> rfl

/-- `MinTimeValidation` / `MaxTimeValidation` / `MinSizeValidation` / `MaxSizeValidation`: value (`#0`), bound (`#1`)
and `ok` (`#2`) come from the helper; the result is `ok && bound <= value` resp. `ok && value <= bound` — `boundShape`,
an INCLUSIVE bound, what `tagFail` computes for `.minTime` / `.maxTime` -/
theorem bound_validations :
    Gen.Config.vMinTimeBinds = ["getTimeForValidation(arg0.Field().Interface(), arg0.Param())"] ∧
    Gen.Config.vMaxTimeBinds = ["getTimeForValidation(arg0.Field().Interface(), arg0.Param())"] ∧
    Gen.Config.vMinSizeBinds = ["getSizeForValidation(arg0.Field().Interface(), arg0.Param())"] ∧
    Gen.Config.vMaxSizeBinds = ["getSizeForValidation(arg0.Field().Interface(), arg0.Param())"] ∧
    Gen.Config.vMinTimeAtoms = ["le:getTimeForValidation#1,getTimeForValidation#0", "var:getTimeForValidation#2"] ∧
    Gen.Config.vMaxTimeAtoms = ["le:getTimeForValidation#0,getTimeForValidation#1", "var:getTimeForValidation#2"] ∧
    Gen.Config.vMinSizeAtoms = ["le:getSizeForValidation#1,getSizeForValidation#0", "var:getSizeForValidation#2"] ∧
    Gen.Config.vMaxSizeAtoms = ["le:getSizeForValidation#0,getSizeForValidation#1", "var:getSizeForValidation#2"] ∧
    (∀ le ok, Gen.Config.vMinTime le ok = boundShape ok le ∧ Gen.Config.vMaxTime le ok = boundShape ok le ∧
      Gen.Config.vMinSize le ok = boundShape ok le ∧ Gen.Config.vMaxSize le ok = boundShape ok le) ∧
    (∀ ns i, tagFail (.minTime ns) (.int i) = !Gen.Config.vMinTime (decide (ns ≤ i)) true) ∧
    (∀ ns i, tagFail (.maxTime ns) (.int i) = !Gen.Config.vMaxTime (decide (i ≤ ns)) true) := by
  refine ⟨rfl, rfl, rfl, rfl, rfl, rfl, rfl, rfl, ?_, ?_, ?_⟩
  · intro a b; cases a <;> cases b <;> exact ⟨rfl, rfl, rfl, rfl⟩
  · intro ns i
    have h : ∀ b, Gen.Config.vMinTime b true = boundShape true b := by intro b; cases b <;> rfl
    simp [tagFail, h]
  · intro ns i
    have h : ∀ b, Gen.Config.vMaxTime b true = boundShape true b := by intro b; cases b <;> rfl
    simp [tagFail, h]

/-- the helpers, by what they RETURN (round 4: read by symbolic execution of the body, so an early return, an else branch,
the type assertion before or after the parse, renamed locals all give the same facts): results are (actual, check, ok);
`ok` is true exactly when the tag's parameter parsed (`err == nil`) AND the field's value has the expected type; whenever
`ok` can be true, `actual` is the field's value asserted to the type and `check` is what was parsed from the parameter -/
theorem bound_helpers :
    Gen.Config.timeHelperParams = ["interface{}", "string"] ∧
    Gen.Config.timeHelperResults = ["time.Duration", "time.Duration", "bool"] ∧
    Gen.Config.timeHelperOkAtoms = ["eqnil:time.ParseDuration(arg1)#1", "var:arg0.(time.Duration)#1"] ∧
    (∀ parsed isDur, Gen.Config.timeHelperOk parsed isDur = (parsed && isDur)) ∧
    Gen.Config.timeHelperWhenOk = ["arg0.(time.Duration)#0", "time.ParseDuration(arg1)#0"] ∧
    Gen.Config.sizeHelperParams = ["interface{}", "string"] ∧
    Gen.Config.sizeHelperResults = ["datasize.ByteSize", "datasize.ByteSize", "bool"] ∧
    Gen.Config.sizeHelperOkAtoms = ["eqnil:([]byte(arg1)).UnmarshalText#0", "var:arg0.(datasize.ByteSize)#1"] ∧
    (∀ parsed isSize, Gen.Config.sizeHelperOk parsed isSize = (parsed && isSize)) ∧
    Gen.Config.sizeHelperWhenOk = ["arg0.(datasize.ByteSize)#0", "([]byte(arg1)).UnmarshalText!recv"] := by
  refine ⟨rfl, rfl, rfl, ?_, rfl, rfl, rfl, rfl, ?_, rfl⟩
  · intro a b; cases a <;> cases b <;> rfl
  · intro a b; cases a <;> cases b <;> rfl

/-- `URLPathStringValidation` is the match of the value against this regular expression (`urlPathOk` is its language:
one or more `/segment`, segments non-empty, of the listed characters); a string validation of a non-string field fails -/
theorem url_path_validation :
    Gen.Config.vUrlPathBinds = [] ∧ Gen.Config.vUrlPathAtoms = ["call:pathRegexp.MatchString(arg0)"] ∧
    (∀ m, Gen.Config.vUrlPath m = m) ∧
    Gen.Config.urlPathRegexp = "^(/[a-zA-Z0-9._~!$&'()*+,;=:@%-]+)+$" ∧
    Gen.Config.stringValidationWrapper = ["return func(x1 validator.FieldLevel) bool { if x2, x3 := x1.Field().Interface().(string); x3 { return x0(x2) } return false }"] := by
  refine ⟨rfl, rfl, ?_, rfl, rfl⟩
  intro m; cases m <;> rfl

/-- the constraints of the component configs (`validate` struct tags), pinned: a tag that is dropped, renamed (`valid:`)
or weakened in the source breaks this lemma; harness/cmd/c17 carries the same table and still generates the failing input -/
theorem validate_tags :
    Gen.Config.validateTags = [
      ("cli.expvarConfig", "Port", "required"),
      ("components/guns/grpc.AnswLogConfig", "Filter", "omitempty,eq=all|eq=warning|eq=error"),
      ("components/guns/grpc.GunConfig", "Target", "required"),
      ("components/guns/grpc/scenario.AnswLogConfig", "Filter", "omitempty,eq=all|eq=warning|eq=error"),
      ("components/guns/grpc/scenario.GunConfig", "Target", "required"),
      ("components/guns/http.AnswLogConfig", "Filter", "omitempty,eq=all|eq=warning|eq=error"),
      ("components/guns/http.AutoTagConfig", "URIElements", "min=1"),
      ("components/guns/http.GunConfig", "Target", "endpoint,required"),
      ("components/providers/grpc/grpcjson.Config", "Limit", "min=0"),
      ("components/providers/grpc/grpcjson.Config", "Passes", "min=0"),
      ("core/aggregator.EncoderAggregatorConfig", "Sink", "required"),
      ("core/aggregator.ReporterConfig", "SampleQueueSize", "min=1"),
      ("core/aggregator/netsample.PhoutConfig", "SampleQueueSize", "min=0"),
      ("core/datasink.FileConfig", "Path", "required"),
      ("core/datasource.FileConfig", "Path", "required"),
      ("core/datasource.InlineConfig", "Data", "required"),
      ("core/engine.Config", "Pools", "required,dive"),
      ("core/engine.InstancePoolConfig", "Aggregator", "required"),
      ("core/engine.InstancePoolConfig", "NewGun", "required"),
      ("core/engine.InstancePoolConfig", "NewRPSSchedule", "required"),
      ("core/engine.InstancePoolConfig", "Provider", "required"),
      ("core/engine.InstancePoolConfig", "StartupSchedule", "required"),
      ("core/provider.AmmoQueueConfig", "AmmoQueueSize", "min=1"),
      ("core/provider.DecodeProviderConfig", "Limit", "min=0"),
      ("core/provider.DecodeProviderConfig", "Passes", "min=0"),
      ("core/provider.DecodeProviderConfig", "Source", "required"),
      ("core/schedule.ConstConfig", "Duration", "min-time=1ms"),
      ("core/schedule.ConstConfig", "Ops", "min=0"),
      ("core/schedule.InstanceStepConfig", "From", "min=0"),
      ("core/schedule.InstanceStepConfig", "Step", "min=1"),
      ("core/schedule.InstanceStepConfig", "StepDuration", "min-time=1ms"),
      ("core/schedule.InstanceStepConfig", "To", "min=0"),
      ("core/schedule.LineConfig", "Duration", "min-time=1ms"),
      ("core/schedule.LineConfig", "From", "min=0"),
      ("core/schedule.LineConfig", "To", "min=0"),
      ("core/schedule.OnceConfig", "Times", "min=1"),
      ("core/schedule.StepConfig", "Duration", "min-time=1ms"),
      ("core/schedule.StepConfig", "From", "min=0"),
      ("core/schedule.StepConfig", "Step", "min=1"),
      ("core/schedule.StepConfig", "To", "min=0"),
      ("core/schedule.UnlimitedConfig", "Duration", "min-time=1ms")] := rfl

/-- the grammar `scan` models and the condition under which the resolved text is cast -/
theorem tag_grammar :
    Gen.Config.tagRegexp = "\\$\\{(?:([^}]+?):)?([^{}]+?)\\}" ∧
    Gen.Config.castCondition = "len(tokens) == 1 && strings.TrimSpace(s) == tokens[0].string" := ⟨rfl, rfl⟩

/-- `confutil.cast` as `castTo` has it: signed kinds parse signed, UNSIGNED KINDS PARSE UNSIGNED, each at the bit size
of the target, base 0; floats at the bit size of the target too (a text beyond the float32 range is no float32: `castFloat`);
bool through ParseBool; strings unchanged -/
theorem cast_table :
    Gen.Config.castTable = [("Bool", "castBool"), ("Float32", "castFloat"), ("Float64", "castFloat"), ("Int", "castInt"),
      ("Int16", "castInt"), ("Int32", "castInt"), ("Int64", "castInt"), ("Int8", "castInt"), ("String", "return v"),
      ("Uint", "castUint"), ("Uint16", "castUint"), ("Uint32", "castUint"), ("Uint64", "castUint"), ("Uint8", "castUint")] ∧
    Gen.Config.castOtherwise = "nil, ErrUnsupportedKind" ∧
    Gen.Config.castParse = [("castBool", "strconv.ParseBool"), ("castFloat", "strconv.ParseFloat t.Bits()"),
      ("castInt", "strconv.ParseInt 0 t.Bits()"), ("castUint", "strconv.ParseUint 0 t.Bits()")] ∧
    Gen.Config.castKinds = [("castBool", []), ("castFloat", ["Float32", "Float64"]),
      ("castInt", ["Int", "Int8", "Int16", "Int32", "Int64"]), ("castUint", ["Uint", "Uint8", "Uint16", "Uint32", "Uint64"])] :=
  ⟨rfl, rfl, rfl, rfl⟩

/-- `cli.readConfig`: the key, the value, and that the defaulting happens before the decode -/
theorem discard_eq :
    Gen.Config.discardKey = "discard_overflow" ∧ Gen.Config.discardDefault = discardDefault ∧
    Gen.Config.discardBeforeDecode = true := ⟨rfl, rfl, rfl⟩

/-- the calls of one function of core/plugin (regenerated: callee(argument types) @closure depth [if guards], sorted) -/
def pluginCallsOf (f : String) : List String :=
  ((Gen.Config.pluginCalls.find? (fun r => r.1 == f)).map (·.2)).getD []

/-- does some call of `f` start with `pre` and run at closure depth `d` (0 = when `f` runs, 1 = when the closure /
factory that `f` returns is called)? -/
def pluginIsPre : List Char → List Char → Bool
  | [], _ => true
  | _ :: _, [] => false
  | a :: p, b :: s => a == b && pluginIsPre p s

def pluginHasInfix (p : List Char) : List Char → Bool
  | [] => p.isEmpty
  | c :: s => pluginIsPre p (c :: s) || pluginHasInfix p s

def pluginCallAt (f pre : String) (d : String) : Bool :=
  (pluginCallsOf f).any fun c =>
    pluginIsPre pre.toList c.toList && pluginHasInfix (" @".toList ++ d.toList) c.toList

/-- **core/plugin as the `plugin` case of `decode`, `DVal.plugin` / `.factory` and `C17_plugin_instance_config` assume it**
(round 4; was tied by the probe plugins only).  Every `Get` builds a NEW default config (`new()` calls the registered
default-config constructor whenever it runs, and `Get` calls `new()` whenever a config is required) and runs `fillConf` on
it when there is one; `Registry.New` hands what `Get` returned to the registered constructor at once; `Registry.NewFactory`
wraps `Get(fillConf)` in a closure (depth 1) when the plugin takes a config and otherwise still runs `fillConf` on an empty
struct at once (an unknown key below a plugin without config is reported); a constructor that builds a PLUGIN runs that
closure at every factory call, inside the factory (depth 1: the config is filled at the call, fresh for every instance —
`late` errors of the model), a constructor that builds a FACTORY runs it once, before the factory exists (depth 0: errors
at decode time). -/
theorem plugin_registry :
    pluginCallsOf "defaultConfigContainer.new" = ["defaultConfigContainer.newValue.Call(nil) @0"] ∧
    pluginCallsOf "defaultConfigContainer.Get" =
      ["defaultConfigContainer.new() @0 if defaultConfigContainer.configRequired()",
       "func(interface{}) error(interface{}) @0 if func(interface{}) error != nil"] ∧
    pluginCallsOf "Registry.New" =
      ["Registry.get(reflect.Type, string) @0", "nameRegistryEntry.constructor.NewPlugin([]reflect.Value) @0",
       "nameRegistryEntry.defaultConfig.Get(func(interface{}) error) @0"] ∧
    pluginCallsOf "Registry.NewFactory" =
      ["Registry.get(reflect.Type, string) @0",
       "func(interface{}) error(&struct{}{}) @0 if !(nameRegistryEntry.defaultConfig.configRequired()) && func(interface{}) error != nil",
       "nameRegistryEntry.constructor.NewFactory(reflect.Type, func() ([]reflect.Value, error)) @0",
       "nameRegistryEntry.defaultConfig.Get(func(interface{}) error) @1"] ∧
    pluginCallsOf "pluginConstructor.NewPlugin" = ["pluginConstructor.newPlugin.Call([]reflect.Value) @0"] ∧
    pluginCallsOf "pluginConstructor.NewFactory" =
      ["func() ([]reflect.Value, error)() @1 if func() ([]reflect.Value, error) != nil",
       "pluginConstructor.newPlugin.Call([]reflect.Value) @1"] ∧
    pluginCallsOf "factoryConstructor.NewPlugin" =
      ["factoryConstructor.callNewFactory([]reflect.Value) @0", "reflect.Value.Call(nil) @0"] ∧
    pluginCallsOf "factoryConstructor.NewFactory" =
      ["factoryConstructor.callNewFactory([]reflect.Value) @0",
       "func() ([]reflect.Value, error)() @0 if func() ([]reflect.Value, error) != nil", "reflect.Value.Call(nil) @1"] ∧
    pluginCallsOf "factoryConstructor.callNewFactory" = ["factoryConstructor.newFactory.Call([]reflect.Value) @0"] := by
  decide

set_option maxRecDepth 8000 in
/-- the reading of `plugin_registry` the model uses: where the config of an instance is filled -/
theorem plugin_fill_time :
    -- a plugin constructor behind a factory: filled inside the factory, at every call
    pluginCallAt "pluginConstructor.NewFactory" "func() ([]reflect.Value, error)()" "1" = true ∧
    pluginCallAt "pluginConstructor.NewFactory" "func() ([]reflect.Value, error)()" "0" = false ∧
    -- a factory constructor: filled once, when the factory is created
    pluginCallAt "factoryConstructor.NewFactory" "func() ([]reflect.Value, error)()" "0" = true ∧
    pluginCallAt "factoryConstructor.NewFactory" "func() ([]reflect.Value, error)()" "1" = false ∧
    -- the closure NewFactory hands down fills a new default config at every run; New fills at once
    pluginCallAt "Registry.NewFactory" "nameRegistryEntry.defaultConfig.Get(" "1" = true ∧
    pluginCallAt "Registry.New" "nameRegistryEntry.defaultConfig.Get(" "0" = true ∧
    pluginCallAt "defaultConfigContainer.Get" "defaultConfigContainer.new()" "0" = true ∧
    pluginCallAt "defaultConfigContainer.new" "defaultConfigContainer.newValue.Call(nil)" "0" = true := by
  decide

end Pandora.Bridge.Config
