/-
C02 — bridge for the leaf: the regenerated `doAtSchedule` (`Pandora/Gen/Schedule.lean`, area `schedule`:
core/schedule/do_at.go + start_sync.go re-translated on every check) does what the C02 model's finite leaf
`Leaf.fin` does.  `toLeaf` reads a regenerated state as a model leaf: the offsets are `doAt 0 … doAt (n-1)`, the
`sync.Once` is "start is known".  Under the state invariant `WF` (counters non-negative, `started` and `startOnce`
agree — true initially and preserved) `Start`, `Next` and `Left` commute with `toLeaf`, including the double-start
panic, the overshooting index and the clamp of `Left` at 0.
-/
import Pandora.Gen.Schedule
import Pandora.Model.C02Sched

namespace Pandora.Bridge.C02DoAt
open Pandora.Gen.Schedule Pandora.Model.C02

def offsOf (s : DoAtSt) : List Int := (List.range s.n.toNat).map (fun (k : Nat) => s.doAt (Int.ofNat k))

def toLeaf (s : DoAtSt) : Leaf :=
  Leaf.fin (offsOf s) s.duration s.i.toNat (if s.startOnce then some s.start else none)

structure WF (s : DoAtSt) : Prop where
  i_nonneg : 0 ≤ s.i
  n_nonneg : 0 ≤ s.n
  flags : s.started = s.startOnce

theorem wf_new (duration n : Int) (doAt : Int → Int) (hn : 0 ≤ n) : WF (NewDoAtSchedule duration n doAt) :=
  ⟨by simp [NewDoAtSchedule], hn, rfl⟩

theorem new_leaf (duration n : Int) (doAt : Int → Int) :
    toLeaf (NewDoAtSchedule duration n doAt) = Leaf.fin ((List.range n.toNat).map (fun (k : Nat) => doAt (Int.ofNat k))) duration 0 none := by
  simp [toLeaf, NewDoAtSchedule, offsOf]

theorem offs_get (s : DoAtSt) (k : Nat) : (offsOf s)[k]? = if k < s.n.toNat then some (s.doAt (Int.ofNat k)) else none := by
  unfold offsOf
  rw [List.getElem?_map]
  by_cases h : k < s.n.toNat
  · rw [List.getElem?_range h]; simp [h]
  · rw [List.getElem?_eq_none (by simpa using h)]; simp [h]

/-- `Start` -/
theorem start_bridge (s : DoAtSt) (h : WF s) (t : Int) :
    (∃ s', doAtSchedule_Start s t = .ok ((), s') ∧ Leaf.start (toLeaf s) t = .ok (toLeaf s') ∧ WF s') ∨
    (doAtSchedule_Start s t = .error "schedule is already started" ∧ Leaf.start (toLeaf s) t = .error alreadyStarted) := by
  obtain ⟨hi, hn, hf⟩ := h
  cases hst : s.started with
  | true =>
    right
    have hso : s.startOnce = true := by rw [← hf]; exact hst
    refine ⟨by simp [doAtSchedule_Start, StartSync_MarkStarted, hst], ?_⟩
    simp [toLeaf, hso, Leaf.start]
  | false =>
    left
    have hso : s.startOnce = false := by rw [← hf]; exact hst
    refine ⟨{ s with started := true, startOnce := true, start := t }, ?_, ?_, ⟨hi, hn, rfl⟩⟩
    · simp [doAtSchedule_Start, StartSync_MarkStarted, hst, hso]
    · simp [toLeaf, hso, Leaf.start, offsOf]

/-- `Next` (`now` = what `time.Now()` returns) -/
theorem next_bridge (s : DoAtSt) (h : WF s) (now : Int) :
    ∃ s' tx ok, doAtSchedule_Next now s = .ok ((tx, ok), s') ∧ Leaf.next (toLeaf s) now = .ok (toLeaf s', tx, ok) ∧ WF s' := by
  obtain ⟨hi, hn, hf⟩ := h
  have hidx : Int.ofNat s.i.toNat = s.i := Int.toNat_of_nonneg hi
  have hlt : (s.i.toNat < s.n.toNat) ↔ s.i < s.n := by omega
  cases hso : s.startOnce with
  | true =>
    have hst : s.started = true := by rw [hf]; exact hso
    by_cases hge : s.i ≥ s.n
    · refine ⟨{ s with i := s.i + 1 }, s.start + s.duration, false, ?_, ?_, ⟨by simp; omega, hn, hf⟩⟩
      · have a1 : s.n < s.i + 1 := by omega
        have a2 : s.n ≤ s.i := by omega
        have a3 : s.n ≤ s.i + 1 - 1 := by omega
        simp [doAtSchedule_Next, hso, hge, a1, a2, a3]
      · have : ¬ s.i.toNat < s.n.toNat := by omega
        have h1 : (s.i + 1).toNat = s.i.toNat + 1 := by omega
        have hoff : ∀ (a b : Bool) (c : Int), offsOf { s with started := a, startOnce := b, start := c, i := s.i + 1 } = offsOf s := fun _ _ _ => rfl
        have hoff' : offsOf { s with i := s.i + 1 } = offsOf s := rfl
        simp [toLeaf, hso, Leaf.next, offs_get, this, hoff, hoff', h1]
    · refine ⟨{ s with i := s.i + 1 }, s.start + s.doAt s.i, true, ?_, ?_, ⟨by simp; omega, hn, hf⟩⟩
      · have b1 : ¬ s.n < s.i + 1 := by omega
        have b2 : ¬ s.n ≤ s.i := by omega
        have b3 : ¬ s.n ≤ s.i + 1 - 1 := by omega
        have b4 : s.i + 1 - 1 = s.i := by omega
        simp [doAtSchedule_Next, hso, hge, b1, b2, b3, b4]
      · have : s.i.toNat < s.n.toNat := by omega
        have h1 : (s.i + 1).toNat = s.i.toNat + 1 := by omega
        have hoff : ∀ (a b : Bool) (c : Int), offsOf { s with started := a, startOnce := b, start := c, i := s.i + 1 } = offsOf s := fun _ _ _ => rfl
        have hoff' : offsOf { s with i := s.i + 1 } = offsOf s := rfl
        have hmax : max s.i 0 = s.i := by omega
        simp [toLeaf, hso, Leaf.next, offs_get, this, hoff, hoff', h1, hidx, hmax]
  | false =>
    have hst : s.started = false := by rw [hf]; exact hso
    by_cases hge : s.i ≥ s.n
    · refine ⟨{ s with started := true, startOnce := true, start := now, i := s.i + 1 }, now + s.duration, false, ?_, ?_,
        ⟨by simp; omega, hn, rfl⟩⟩
      · have a1 : s.n < s.i + 1 := by omega
        have a2 : s.n ≤ s.i := by omega
        have a3 : s.n ≤ s.i + 1 - 1 := by omega
        simp [doAtSchedule_Next, StartSync_MarkStarted, hso, hst, hge, a1, a2, a3]
      · have : ¬ s.i.toNat < s.n.toNat := by omega
        have h1 : (s.i + 1).toNat = s.i.toNat + 1 := by omega
        have hoff : ∀ (a b : Bool) (c : Int), offsOf { s with started := a, startOnce := b, start := c, i := s.i + 1 } = offsOf s := fun _ _ _ => rfl
        have hoff' : offsOf { s with i := s.i + 1 } = offsOf s := rfl
        simp [toLeaf, hso, Leaf.next, offs_get, this, hoff, hoff', h1]
    · refine ⟨{ s with started := true, startOnce := true, start := now, i := s.i + 1 }, now + s.doAt s.i, true, ?_, ?_,
        ⟨by simp; omega, hn, rfl⟩⟩
      · have b1 : ¬ s.n < s.i + 1 := by omega
        have b2 : ¬ s.n ≤ s.i := by omega
        have b3 : ¬ s.n ≤ s.i + 1 - 1 := by omega
        have b4 : s.i + 1 - 1 = s.i := by omega
        simp [doAtSchedule_Next, StartSync_MarkStarted, hso, hst, hge, b1, b2, b3, b4]
      · have : s.i.toNat < s.n.toNat := by omega
        have h1 : (s.i + 1).toNat = s.i.toNat + 1 := by omega
        have hoff : ∀ (a b : Bool) (c : Int), offsOf { s with started := a, startOnce := b, start := c, i := s.i + 1 } = offsOf s := fun _ _ _ => rfl
        have hoff' : offsOf { s with i := s.i + 1 } = offsOf s := rfl
        have hmax : max s.i 0 = s.i := by omega
        simp [toLeaf, hso, Leaf.next, offs_get, this, hoff, hoff', h1, hidx, hmax]

/-- `Left` -/
theorem left_bridge (s : DoAtSt) (h : WF s) (now : Int) :
    ∃ l, doAtSchedule_Left s = .ok (l, s) ∧ Leaf.left (toLeaf s) now = .ok (toLeaf s, l) := by
  obtain ⟨hi, hn, hf⟩ := h
  by_cases hlt : s.n - s.i < 0
  · refine ⟨0, by simp [doAtSchedule_Left, hlt], ?_⟩
    simp [toLeaf, Leaf.left, offsOf]
    omega
  · refine ⟨s.n - s.i, by simp [doAtSchedule_Left, hlt], ?_⟩
    simp [toLeaf, Leaf.left, offsOf]
    omega

end Pandora.Bridge.C02DoAt
