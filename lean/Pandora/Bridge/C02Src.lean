/-
C02 — bridges for `Pandora/Gen/C02Src.lean` (area `c02src`, re-translated from core/schedule on every check):

  * `unlimitedSchedule` (unlilmited.go + start_sync.go) does what the model leaf `Leaf.unl` does: read through
    `toLeaf`, `NewUnlimited` is the unstarted leaf and `Start` / `Next` / `Left` commute with `Leaf.start/next/left`
    (double-start panic, auto-start by the first `Next`, no time before the part's start, finish time after the end);
  * the loop of `NewComposite` is the model's `mkLeftAfter` (last child first, the unknown latch), its shortcuts
    are `newComposite`'s;
  * what `compositeSchedule.Left` decides after its reader section is what the model's `leftReader` (concurrent)
    and `compLeftAux` (one caller) decide.
-/
import Pandora.Gen.C02Src
import Pandora.Model.C02Par

namespace Pandora.Bridge.C02Src
open Pandora.Go Pandora.Gen.C02Src Pandora.Model.C02 Pandora.Model.C02.Par

/-! ### unlimitedSchedule -/

def toLeaf (s : UnlSt) : Leaf := Leaf.unl s.duration (if s.startOnce then some s.finish else none)

/-- `started` and the `sync.Once` agree: true of `NewUnlimited`, kept by every method -/
def WF (s : UnlSt) : Prop := s.started = s.startOnce

theorem wf_new (duration now : Int) : WF (NewUnlimited duration now) := rfl

theorem new_leaf (duration now : Int) : toLeaf (NewUnlimited duration now) = Leaf.unl duration none := rfl

theorem start_bridge (s : UnlSt) (h : WF s) (t : Int) :
    (∃ s', unlimitedSchedule_Start s t = .ok ((), s') ∧ Leaf.start (toLeaf s) t = .ok (toLeaf s') ∧ WF s') ∨
    (unlimitedSchedule_Start s t = .error "schedule is already started" ∧ Leaf.start (toLeaf s) t = .error alreadyStarted) := by
  unfold WF at h
  cases hst : s.started with
  | true =>
    right
    have hso : s.startOnce = true := by rw [← h]; exact hst
    exact ⟨by simp [unlimitedSchedule_Start, StartSync_MarkStarted, hst, hso], by simp [toLeaf, hso, Leaf.start]⟩
  | false =>
    left
    have hso : s.startOnce = false := by rw [← h]; exact hst
    refine ⟨{ s with started := true, startOnce := true, finish := t + s.duration }, ?_, ?_, rfl⟩
    · simp [unlimitedSchedule_Start, StartSync_MarkStarted, hst, hso]
    · simp [toLeaf, hso, Leaf.start]

theorem next_bridge (s : UnlSt) (h : WF s) (now : Int) :
    ∃ s' tx ok, unlimitedSchedule_Next now s = .ok ((tx, ok), s') ∧ Leaf.next (toLeaf s) now = .ok (toLeaf s', tx, ok) ∧ WF s' := by
  unfold WF at h
  cases hso : s.startOnce with
  | true =>
    by_cases hlt : now < s.finish
    · by_cases hb : now < s.finish + -s.duration
      · refine ⟨s, s.finish + -s.duration, true, ?_, ?_, h⟩
        · simp [unlimitedSchedule_Next, hso, hlt, hb]
        · have : max now (s.finish - s.duration) = s.finish + -s.duration := by omega
          simp [toLeaf, hso, Leaf.next, hlt, this]
      · refine ⟨s, now, true, ?_, ?_, h⟩
        · simp [unlimitedSchedule_Next, hso, hlt, hb]
        · have : max now (s.finish - s.duration) = now := by omega
          simp [toLeaf, hso, Leaf.next, hlt, this]
    · refine ⟨s, s.finish, false, ?_, ?_, h⟩
      · simp [unlimitedSchedule_Next, hso, hlt]
      · simp [toLeaf, hso, Leaf.next, hlt]
  | false =>
    have hst : s.started = false := by rw [h]; exact hso
    by_cases hlt : now < now + s.duration
    · refine ⟨{ s with started := true, startOnce := true, finish := now + s.duration }, now, true, ?_, ?_, rfl⟩
      · have hb : ¬ (now < now + s.duration + -s.duration) := by omega
        simp [unlimitedSchedule_Next, StartSync_MarkStarted, hso, hst, hlt, hb]
      · simp [toLeaf, hso, Leaf.next, hlt]
    · refine ⟨{ s with started := true, startOnce := true, finish := now + s.duration }, now + s.duration, false, ?_, ?_, rfl⟩
      · simp [unlimitedSchedule_Next, StartSync_MarkStarted, hso, hst, hlt]
      · simp [toLeaf, hso, Leaf.next, hlt]

theorem left_bridge (s : UnlSt) (h : WF s) (now : Int) :
    ∃ l, unlimitedSchedule_Left now s = .ok (l, s) ∧ Leaf.left (toLeaf s) now = .ok (toLeaf s, l) := by
  unfold WF at h
  cases hso : s.startOnce with
  | false =>
    have hst : s.started = false := by rw [h]; exact hso
    exact ⟨-1, by simp [unlimitedSchedule_Left, StartSync_IsStarted, hst], by simp [toLeaf, hso, Leaf.left]⟩
  | true =>
    have hst : s.started = true := by rw [h]; exact hso
    by_cases hlt : now < s.finish
    · exact ⟨-1, by simp [unlimitedSchedule_Left, StartSync_IsStarted, hst, hlt], by simp [toLeaf, hso, Leaf.left, hlt]⟩
    · exact ⟨0, by simp [unlimitedSchedule_Left, StartSync_IsStarted, hst, hlt], by simp [toLeaf, hso, Leaf.left, hlt]⟩

/-! ### NewComposite -/

/-- closed form of the regenerated loop body -/
theorem loopBody_eq (acc : Int) (unknown : Bool) (l : Int) :
    NewComposite_loopBody acc unknown l =
      (acc, (if l < 0 then -1 else if unknown then acc else acc + l), (if l < 0 then true else unknown)) := by
  unfold NewComposite_loopBody
  by_cases hl : l < 0
  · simp [hl]
  · cases unknown <;> simp [hl]

/-- the model's `mkLeftAfter` is that loop: children from the last to the first, `left[i]` = the accumulator before child i -/
theorem mkLeftAfter_is_source {σ : Type} (ops : Ops σ) (now : Int) (c : σ) (rest : List σ) :
    NewComposite_loopOrder = "lastToFirst" ∧
    mkLeftAfter ops now (c :: rest) = (do
      let (rest', laRest, acc, unknown) ← mkLeftAfter ops now rest
      let (c', l) ← ops.left c now
      let r := NewComposite_loopBody acc unknown l
      pure (c' :: rest', r.1 :: laRest, r.2.1, r.2.2)) := by
  refine ⟨rfl, ?_⟩
  simp only [mkLeftAfter, loopBody_eq]
  cases mkLeftAfter ops now rest with
  | error e => rfl
  | ok x =>
    obtain ⟨rest', laRest, acc, unknown⟩ := x
    simp only [bind, Except.bind]
    cases ops.left c now with
    | error e => rfl
    | ok y =>
      obtain ⟨c', l⟩ := y
      simp only [pure, Except.pure]
      by_cases hl : l < 0
      · simp [hl]
      · cases unknown <;> simp [hl]

/-- no children: `NewOnce(0)`; one child: the child itself — as in `newComposite` -/
theorem shortcuts_are_source : NewComposite_shortcuts = [(0, "NewOnce(0)"), (1, "scheds[0]")] := rfl

theorem newComposite_shortcuts {σ : Type} (ops : Ops σ) (now : Int) (c : σ) :
    newComposite ops now [] = .ok (.inl ops.once0) ∧ newComposite ops now [c] = .ok (.inl c) := ⟨rfl, rfl⟩

/-! ### compositeSchedule.Left -/

def outOf (seen : Nat) : C02LeftAct → Out
  | .ret n => .ret (.cnt n)
  | .shift => .goto (.leftW seen)

/-- the reader section of the concurrent model decides what the source decides -/
theorem leftReader_is_source {σ : Type} (ops : Ops σ) (s : Sh σ) (now : Int) (c : σ) (rest : List σ) (hcs : s.cs = c :: rest)
    (c' : σ) (left : Int) (hl : ops.left c now = .ok (c', left)) :
    leftReader ops s now = ({ s with cs := c' :: rest },
      outOf (rest.length + 1) (compositeSchedule_Left_decide ((rest.length : Int) + 1) (s.la.headD 0) left s.started)) := by
  unfold leftReader compositeSchedule_Left_decide
  rw [hcs]
  simp only [hl]
  generalize s.la.headD 0 = la0
  cases rest with
  | nil => simp [outOf]
  | cons h t =>
    have h1 : ¬ ((((h :: t).length : Nat) : Int) + 1 = 1) := by simp only [List.length_cons]; omega
    simp only [List.isEmpty_cons, Bool.false_eq_true, if_false, h1, decide_false]
    by_cases h0 : left = 0
    · subst h0
      by_cases hla : la0 ≥ 0
      · simp [outOf, hla]
      · cases hs : s.started <;> simp [outOf, hla]
    · have hb : (left == 0) = false := by simpa using h0
      simp only [hb, Bool.false_eq_true, if_false, h0, decide_false]
      by_cases hn : left < 0
      · simp [outOf, hn]
      · by_cases hla : la0 < 0
        · simp [outOf, hn, hla]
        · simp [outOf, hn, hla]

/-- what the one-caller model does when the source says "shift" -/
def seqShift {σ : Type} (ops : Ops σ) (started : Bool) (c' : σ) (rest : List σ) (la : List Int) (now : Int) :
    Except String (Comp σ × Int) :=
  match rest with
  | [] => .error indexPanic
  | h :: t => do
    let (_, tx, ok) ← ops.next c' now
    if ok then throw "current schedule is not finished"
    let h1 ← ops.start h tx
    compLeftAux ops started h1 t la.tail now

/-- … and the one-caller model decides what the source decides -/
theorem compLeftAux_is_source {σ : Type} (ops : Ops σ) (started : Bool) (c : σ) (rest : List σ) (la : List Int) (now : Int) :
    compLeftAux ops started c rest la now = (do
      let (c', left) ← ops.left c now
      match compositeSchedule_Left_decide ((rest.length : Int) + 1) (la.headD 0) left started with
      | .ret n => pure (⟨c' :: rest, la, started⟩, n)
      | .shift => seqShift ops started c' rest la now) := by
  unfold compLeftAux compositeSchedule_Left_decide
  cases ops.left c now with
  | error e => rfl
  | ok y =>
    obtain ⟨c', left⟩ := y
    simp only [bind, Except.bind]
    generalize la.headD 0 = la0
    cases rest with
    | nil => simp [pure, Except.pure]
    | cons h t =>
      have h1 : ¬ ((((h :: t).length : Nat) : Int) + 1 = 1) := by simp only [List.length_cons]; omega
      simp only [h1, decide_false, Bool.false_eq_true, if_false]
      by_cases h0 : left = 0
      · subst h0
        by_cases hla : la0 ≥ 0
        · simp [hla, pure, Except.pure]
        · cases started <;> simp [hla, pure, Except.pure, seqShift, bind, Except.bind]
      · have hb : (left == 0) = false := by simpa using h0
        simp only [hb, Bool.false_eq_true, if_false, h0, decide_false]
        by_cases hn : left < 0
        · simp [hn, pure, Except.pure]
        · by_cases hla : la0 < 0
          · simp [hn, hla, pure, Except.pure, combineLeft]
          · simp [hn, hla, pure, Except.pure, combineLeft]

/-! ### compositeSchedule.Next, section by section -/

/-- before `RLock`, `Next` only sets the started flag (`nextBegin`) -/
theorem next_prologue_is_source : compositeSchedule_Next_prologue = ["s.started.Store(true)"] := rfl

/-- closes what is left after the structural case analysis: two nests of `if`s over comparisons of `len(s.scheds)`
(as `Int` in the source, as `Nat` in the model) that decide the same way, however the source spells them -/
macro "c02_close" : tactic => `(tactic|
  first
  | rfl
  | (simp; done)
  | (simp; omega)
  | (simp; (repeat' split) <;> first | rfl | omega | (exfalso; omega))
  | ((repeat' split) <;> first | rfl | omega | (exfalso; omega) | (simp_all; done) | (simp_all; omega)))

/-- the reader section of the concurrent model is the reader section of the source -/
theorem nextReader_is_source {σ : Type} (ops : Ops σ) (s : Sh σ) (now : Int) :
    compositeSchedule_Next_reader ops s now = nextReader ops s now := by
  unfold compositeSchedule_Next_reader nextReader cChildNext cLen
  cases hcs : s.cs with
  | nil => rfl
  | cons c rest =>
    simp only
    cases ops.next c now with
    | error e => rfl
    | ok x =>
      obtain ⟨c', tx, ok⟩ := x
      simp only
      cases ok with
      | true => c02_close
      | false =>
        cases rest with
        | nil => c02_close
        | cons h t => c02_close

/-- the writer section of the concurrent model is the writer section of the source: who shifted is re-checked, the head
is started with the finish time carried over from the reader section, the two retry conditions -/
theorem nextWriter_is_source {σ : Type} (ops : Ops σ) (s : Sh σ) (tx : Int) (seen : Nat) (now : Int) :
    compositeSchedule_Next_writer ops s tx seen now = nextWriter ops s tx seen now := by
  unfold compositeSchedule_Next_writer nextWriter cChildNext cStartNext cLen
  by_cases hlt : s.cs.length < seen
  · have h1 : ((s.cs.length : Nat) : Int) < (seen : Int) := by omega
    have h2 : (seen : Int) > ((s.cs.length : Nat) : Int) := by omega
    have h3 : ¬ (seen : Int) ≤ ((s.cs.length : Nat) : Int) := by omega
    simp only [hlt, h1, h2, h3, decide_true, decide_false, if_true, if_false, Bool.not_true, Bool.not_false]
    cases hcs : s.cs with
    | nil => first | rfl | c02_close
    | cons c rest =>
      simp only
      cases ops.next c now with
      | error e => first | rfl | c02_close
      | ok x =>
        obtain ⟨c', tx', ok⟩ := x
        cases ok <;> cases rest <;> c02_close
  · have h1 : ¬ ((s.cs.length : Nat) : Int) < (seen : Int) := by omega
    have h2 : ¬ (seen : Int) > ((s.cs.length : Nat) : Int) := by omega
    have h3 : (seen : Int) ≤ ((s.cs.length : Nat) : Int) := by omega
    simp only [hlt, h1, h2, h3, decide_true, decide_false, if_true, if_false, Bool.false_eq_true, Bool.not_true, Bool.not_false]
    cases startNext ops s tx with
    | error e => first | rfl | c02_close
    | ok s1 =>
      simp only
      cases hcs1 : s1.cs with
      | nil => first | rfl | c02_close
      | cons c rest =>
        simp only
        cases ops.next c now with
        | error e => first | rfl | c02_close
        | ok x =>
          obtain ⟨c', tx', ok⟩ := x
          cases ok <;> c02_close

/-- the writer section of `Left` in the concurrent model is the writer section of the source: the re-check of who
shifted, the panic if the head still had a token, `startNext` with the head's finish time, then the retry -/
theorem leftWriter_is_source {σ : Type} (ops : Ops σ) (s : Sh σ) (seen : Nat) (now : Int) :
    compositeSchedule_Left_writer ops s seen now = leftWriter ops s seen now := by
  unfold compositeSchedule_Left_writer leftWriter cChildNext cStartNext cLen
  by_cases he : s.cs.length = seen
  · have h1 : ((s.cs.length : Nat) : Int) = (seen : Int) := by omega
    have h2 : (seen : Int) = ((s.cs.length : Nat) : Int) := by omega
    have h3 : (s.cs.length == seen) = true := by simp [he]
    simp only [h1, h3, decide_true, if_true]
    cases hcs : s.cs with
    | nil => first | rfl | c02_close
    | cons c rest =>
      simp only
      cases ops.next c now with
      | error e => first | rfl | c02_close
      | ok x =>
        obtain ⟨c', tx', ok⟩ := x
        cases ok with
        | true => first | rfl | c02_close
        | false =>
          simp only [Bool.false_eq_true, if_false]
          cases startNext ops { s with cs := c' :: rest } tx' <;> first | rfl | c02_close
  · have h1 : ¬ ((s.cs.length : Nat) : Int) = (seen : Int) := by omega
    have h2 : ¬ (seen : Int) = ((s.cs.length : Nat) : Int) := by omega
    have h3 : (s.cs.length == seen) = false := by simp [he]
    simp only [h1, h2, h3, decide_false, if_false, Bool.false_eq_true]
    try (first | rfl | c02_close)

/-- `startNext` of the source — drop the head of `scheds` and of `leftAfter`, start the new head with the time given, in
whichever order the source does it — is the model's `startNext` (as long as `leftAfter` is not empty: it is as long as
`scheds`) -/
theorem startNext_is_source {σ : Type} (ops : Ops σ) (s : Sh σ) (t : Int) (hla : s.la ≠ []) :
    compositeSchedule_startNext ops s t = startNext ops s t := by
  unfold compositeSchedule_startNext startNext eShiftScheds eShiftLeftAfter eStartAt
  obtain ⟨cs, la, st⟩ := s
  cases la with
  | nil => exact absurd rfl hla
  | cons l0 lr =>
    cases cs with
    | nil => rfl
    | cons c r =>
      cases r with
      | nil => rfl
      | cons h tl =>
        simp only [bind, Except.bind, pure, Except.pure, List.getElem?_cons_zero, List.getElem?_cons_succ, List.set_cons_zero,
          List.set_cons_succ, List.tail_cons]
        cases ops.start h t <;> rfl

/-- `Start` sets the started flag and starts the head with the time it was given, under the write lock — `compStart` -/
theorem start_is_source :
    compositeSchedule_Start = ["defer s.rwMu.Unlock()", "s.rwMu.Lock()", "s.scheds[0].Start(t)", "s.started.Store(true)"] := by decide

/-! ### machine integers: the suffix sums and `Left` do not wrap -/

/-- a 64-bit machine integer holds every value of its range unchanged -/
theorem wrap64_id (x : Int) (h1 : -9223372036854775808 ≤ x) (h2 : x < 9223372036854775808) : wrapInt 64 x = x := by
  unfold wrapInt
  have e1 : (2 : Int) ^ (64 - 1) = 9223372036854775808 := by decide
  have e2 : (2 : Int) ^ 64 = 18446744073709551616 := by decide
  rw [e1, e2]
  omega

/-- `NewComposite` stores its suffix sums in 64-bit elements and `compositeSchedule` keeps them in 64-bit elements -/
theorem elemBits_are_source : NewComposite_leftElemBits = 64 ∧ compositeSchedule_leftAfter_elemBits = 64 := ⟨rfl, rfl⟩

/-- the loop body in machine integers is the loop body over the integers as long as the running sum stays below 2^63
(`acc` = tokens after child i or -1, `l` = what the child's `Left()` returned, any int) -/
theorem loopBodyW_eq (acc : Int) (unknown : Bool) (l : Int) (hacc : -1 ≤ acc) (hl : -9223372036854775808 ≤ l)
    (hsum : acc + l < 9223372036854775808) (ha : acc < 9223372036854775808) :
    NewComposite_loopBodyW acc unknown l = NewComposite_loopBody acc unknown l := by
  rw [loopBody_eq]
  unfold NewComposite_loopBodyW
  have hw : wrapInt 64 acc = acc := wrap64_id acc (by omega) ha
  by_cases hl0 : l < 0
  · simp [hl0, hw]
  · have hs : wrapInt 64 (acc + l) = acc + l := wrap64_id _ (by omega) hsum
    cases unknown <;> simp [hl0, hw, hs]

/-- … and so is the decision of `Left` (`la` = the stored suffix sum, `left` = the head's count) -/
theorem leftDecideW_eq (n la left : Int) (started : Bool) (hla : -1 ≤ la) (hleft : -1 ≤ left)
    (hsum : left + la < 9223372036854775808) (h1 : la < 9223372036854775808) (h2 : left < 9223372036854775808) :
    compositeSchedule_Left_decideW n la left started = compositeSchedule_Left_decide n la left started := by
  unfold compositeSchedule_Left_decideW compositeSchedule_Left_decide
  -- every machine operation of the source acts on a value inside the 64-bit range (whichever way the source writes
  -- the conversions): all `wrapInt 64` disappear
  simp (disch := omega) only [wrap64_id]

/-! ### config wrappers (round 6) -/

/-- `NewCompositeConf`, `NewInstanceStepConf`, `NewUnlimitedConf` hand every field of their config to the constructor
unchanged, in the constructor's parameter order (whatever locals they go through): what the driver builds through the
`New…Conf` constructors and what the config route decodes IS what the model's constructors are given -/
theorem conf_forwards : confForwards =
    [("NewCompositeConf", "NewComposite(Nested...)"),
     ("NewInstanceStepConf", "NewInstanceStep(From, To, Step, StepDuration)"),
     ("NewUnlimitedConf", "NewUnlimited(Duration)")] := by decide

end Pandora.Bridge.C02Src
