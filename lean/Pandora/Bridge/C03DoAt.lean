/-
C03 — bridge for the finite leaf profile (`once`, `const`, `line` and every step of `step`): the `doAtSchedule`
REGENERATED from the current source (`Pandora/Gen/Schedule.lean`, area `schedule`: core/schedule/do_at.go +
start_sync.go, re-translated on every check) is the token bucket of the C03 model.

With `tokensLeft s = (n − i)` clamped at 0 — the model's `shared` / `own[i]`:

* `left_eq`      — `Left()` returns exactly `tokensLeft`, changes nothing (model: `chk i left` with `left = St.left`);
* `next_draws`   — `Next()` succeeds iff `0 < tokensLeft` (model: `tokOk` enabled iff `0 < left`, else `tokEnd`), adds
                   exactly one to the counter WHATEVER the outcome (so the one atomic `Inc` is all `Next` does to the
                   shared state, cf. `Gen.InstLoop.schedNextAccesses`), leaves `n` alone and lowers `tokensLeft` by one
                   (model: `St.draw`; at 0 it stays 0);
* `new_tokens`   — a new leaf holds `n` tokens (model: `init`, `own[i] := tokens` at `start i`);
* `drain`        — from a new leaf, the first `n` calls of `Next` succeed and every later one fails: the profile hands
                   out exactly `n` tokens however `Left` calls are mixed in.

A `Next` that gives its increment back, a `Left` that is not clamped, an off-by-one in the comparison … break these.
(C02 proves more about the same code — start times, the composite — in `Bridge/C02DoAt.lean`; this file only needs
the counting.)
-/
import Pandora.Gen.Schedule

namespace Pandora.Bridge.C03DoAt
open Pandora.Gen.Schedule

/-- tokens left in a regenerated leaf -/
def tokensLeft (s : DoAtSt) : Nat := (s.n - s.i).toNat

/-- the two start flags agree (true for a new leaf, kept by `Next`): `MarkStarted` does not panic -/
def Flags (s : DoAtSt) : Prop := s.started = s.startOnce

theorem new_tokens (duration n : Int) (doAt : Int → Int) :
    tokensLeft (NewDoAtSchedule duration n doAt) = n.toNat ∧ Flags (NewDoAtSchedule duration n doAt) := by
  simp [tokensLeft, NewDoAtSchedule, Flags]

/-- what `Next` answers / the state it leaves (projections that do not depend on the shape of the regenerated code) -/
def okOf : Except String ((Int × Bool) × DoAtSt) → Option Bool
  | .ok ((_, ok), _) => some ok
  | .error _ => none
def stOf : Except String ((Int × Bool) × DoAtSt) → Option DoAtSt
  | .ok (_, s') => some s'
  | .error _ => none

/-- split every `if`, simplify, again (conditions behind a `match` on an `if` only appear after a round), then linear
arithmetic.  The proofs below use nothing else, so they do not depend on how the source arranges its tests (`i >= n`
first or `i < n` first, clamp by comparison of the counters or of the difference, renamed locals …) — only on what
the functions compute. -/
macro "leaf_auto" "[" ds:Lean.Parser.Tactic.simpLemma,* "]" : tactic =>
  `(tactic| ((try split_ifs) <;> (try simp_all [$ds,*]) <;> (try split_ifs) <;> (try simp_all [$ds,*]) <;>
             (try split_ifs) <;> (try simp_all [$ds,*]) <;> (try omega)))

/-- `Left()` = the tokens left, never negative; the state is untouched -/
theorem left_eq (s : DoAtSt) : doAtSchedule_Left s = .ok ((tokensLeft s : Int), s) := by
  simp only [doAtSchedule_Left, tokensLeft]
  leaf_auto []

theorem next_ok (s : DoAtSt) (hf : Flags s) (now : Int) :
    okOf (doAtSchedule_Next now s) = some (decide (0 < tokensLeft s)) := by
  simp only [Flags] at hf
  simp only [doAtSchedule_Next, StartSync_MarkStarted, tokensLeft]
  leaf_auto [okOf]

theorem next_st (s : DoAtSt) (hf : Flags s) (now : Int) :
    (stOf (doAtSchedule_Next now s)).map (fun s' => (s'.i, s'.n, decide (s'.started = s'.startOnce), tokensLeft s')) =
      some (s.i + 1, s.n, true, tokensLeft s - 1) := by
  simp only [Flags] at hf
  simp only [doAtSchedule_Next, StartSync_MarkStarted, tokensLeft]
  leaf_auto [stOf]

/-- `Next()`: ok iff a token is left; the counter goes up by exactly one in both cases; one token fewer is left -/
theorem next_draws (s : DoAtSt) (hf : Flags s) (now : Int) :
    ∃ tx s', doAtSchedule_Next now s = .ok ((tx, decide (0 < tokensLeft s)), s') ∧ s'.i = s.i + 1 ∧ s'.n = s.n ∧
      Flags s' ∧ tokensLeft s' = tokensLeft s - 1 := by
  have h1 := next_ok s hf now
  have h2 := next_st s hf now
  cases hr : doAtSchedule_Next now s with
  | error e => rw [hr] at h1; simp [okOf] at h1
  | ok r =>
    obtain ⟨⟨tx, ok⟩, s'⟩ := r
    rw [hr] at h1 h2
    simp only [okOf, Option.some.injEq] at h1
    simp only [stOf, Option.map_some, Option.some.injEq, Prod.mk.injEq, decide_eq_true_eq] at h2
    exact ⟨tx, s', by rw [h1], h2.1, h2.2.1, h2.2.2.1, h2.2.2.2⟩

/-- the state after `k` calls of `Next` (results dropped; `Left` calls in between change nothing by `left_eq`) -/
def afterNexts (now : Int) : Nat → DoAtSt → Option DoAtSt
  | 0, s => some s
  | k + 1, s => match doAtSchedule_Next now s with
    | .ok (_, s') => afterNexts now k s'
    | .error _ => none

/-- after `k` calls of `Next` on a leaf with consistent flags, `tokensLeft` has gone down by `k` (stopping at 0) -/
theorem after_k (now : Int) : ∀ (k : Nat) (s : DoAtSt), Flags s →
    ∃ s', afterNexts now k s = some s' ∧ Flags s' ∧ tokensLeft s' = tokensLeft s - k ∧ s'.n = s.n
  | 0, s, hf => ⟨s, rfl, hf, by omega, rfl⟩
  | k + 1, s, hf => by
    obtain ⟨tx, s1, h1, _, hn1, hf1, ht1⟩ := next_draws s hf now
    obtain ⟨s', h2, hf2, ht2, hn2⟩ := after_k now k s1 hf1
    refine ⟨s', ?_, hf2, by omega, by rw [hn2, hn1]⟩
    simp only [afterNexts, h1]
    exact h2

/-- **exactly `n` tokens**: on a new leaf of `n ≥ 0` tokens the call number `k+1` of `Next` succeeds iff `k < n` -/
theorem drain (duration n : Int) (doAt : Int → Int) (now : Int) (k : Nat) :
    ∃ s tx s', afterNexts now k (NewDoAtSchedule duration n doAt) = some s ∧
      doAtSchedule_Next now s = .ok ((tx, decide (k < n.toNat)), s') := by
  obtain ⟨hn, hf⟩ := new_tokens duration n doAt
  obtain ⟨s, h1, hf1, ht1, _⟩ := after_k now k _ hf
  obtain ⟨tx, s', h2, _⟩ := next_draws s hf1 now
  refine ⟨s, tx, s', h1, ?_⟩
  rw [h2]
  have : (0 < tokensLeft s) ↔ (k < n.toNat) := by rw [ht1, hn]; omega
  simp [this]

end Pandora.Bridge.C03DoAt
