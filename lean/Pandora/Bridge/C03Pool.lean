/-
C03 — bridge for `(*instancePool).Run`, the goroutine of `awaitRunAsync`, the channel `awaitErr`, `onErrAwaited` and the
"get the config" function of the plugin registry: what `gen -area instloop` (gen/area_instloop_pool.go) re-reads from the
current source is what `Pandora.Model.C03Pool` has.

* `run_eq` — executing the REGENERATED statements of `Run`, with the regenerated decisions of its two select cases, against
  the channel trace of the REGENERATED goroutine is the model's `outcome`, for every environment and every sequence of
  results.  The goroutine's statements are compared by what they do on the channel (`goroutine`), so `onWaitDone` before
  or after the `close` is the same; a `close` before `awaitRun()` (or outside the deferred function, before it) is not.
* `on_err_select` — `onErrAwaited` SENDS the error on `awaitErr` (giving up only when the pool's context is done).  The
  channel's buffer (`Gen.InstLoop.poolAwaitErrBuf`, 0 today) is emitted but nothing depends on it: a receive takes the
  buffered values in order before it sees the `close`, so "the first operation on the channel decides" holds for any size.
* `registry_get_conf` — the function the registry hands to the constructor as "get the config" is ONE literal whose whole
  body is `return <entry>.defaultConfig.Get(<fillConf>)`: a fresh config is decoded at every call (no cache, no `Once`).
-/
import Pandora.Gen.InstLoop
import Pandora.Model.C03Pool

namespace Pandora.Bridge.C03Pool
open Pandora.Model.C03Await Pandora.Model.C03Pool

theorem go_eq (rs : List Res) :
    goroutine rs Gen.InstLoop.poolAwaitGoBody Gen.InstLoop.poolAwaitGoDeferred = goroutine rs goBody goDeferred := by
  simp [goroutine, goTrace, Gen.InstLoop.poolAwaitGoBody, Gen.InstLoop.poolAwaitGoDeferred, goBody, goDeferred]

theorem on_await_eq (ok : Bool) : Gen.InstLoop.poolRunOnAwait ok = onAwait ok := by
  cases ok <;> simp [Gen.InstLoop.poolRunOnAwait, onAwait]

theorem ctx_case_eq : Gen.InstLoop.poolRunCtxCase = .ctxErr := rfl

theorem run_eq (e : PEnv) (rs : List Res) :
    exec Gen.InstLoop.poolRunOnAwait Gen.InstLoop.poolRunCtxCase e
      (goroutine rs Gen.InstLoop.poolAwaitGoBody Gen.InstLoop.poolAwaitGoDeferred) Gen.InstLoop.poolRun {} = outcome e rs := by
  have h : Gen.InstLoop.poolRunOnAwait = onAwait := funext on_await_eq
  rw [go_eq, h, ctx_case_eq]
  rfl

theorem on_err_select : Gen.InstLoop.poolOnErrSelect = ["recv $.poolCtx.Done()", "send $.awaitErr"] := rfl

theorem registry_get_conf : Gen.InstLoop.registryGetConf = [["return v0.defaultConfig.Get(v1)"]] := rfl

end Pandora.Bridge.C03Pool
