/-
C02 — bridge for `NewInstanceStep` (regenerated in `Pandora/Gen/Schedule.lean`, area `schedule`, from
core/schedule/instance_step.go on every check): read through `toTree` (a `doAt` leaf with its offsets enumerated, a
composite with its children), what the source builds for `instance_step(from, to, step, stepDuration)` IS the tree
`instanceStepTree` of the C02 model — `once(from)` followed, for i = from+step, from+2·step, … ≤ to, by a token-less
part of `stepDuration` and `once(step)`, in this order.
-/
import Pandora.Gen.Schedule
import Pandora.Model.C02Sched

namespace Pandora.Bridge.C02IStep
open Pandora Pandora.Gen.Schedule Pandora.Model.C02

mutual
noncomputable def toTree : Sched → Tree
  | .doAt d n f => Tree.fin ((List.range n.toNat).map (fun (k : Nat) => f (Int.ofNat k))) d
  | .composite l => Tree.comp (toTrees l)
noncomputable def toTrees : List Sched → List Tree
  | [] => []
  | s :: r => toTree s :: toTrees r
end

theorem toTrees_append (a b : List Sched) : toTrees (a ++ b) = toTrees a ++ toTrees b := by
  induction a with
  | nil => simp [toTrees]
  | cons x r ih => simp [toTrees, ih]

theorem toTrees_flatMap_const {α : Type} (l : List α) (A B : Sched) :
    toTrees (l.flatMap (fun _ => [A, B])) = (List.replicate l.length [toTree A, toTree B]).flatten := by
  induction l with
  | nil => simp [toTrees]
  | cons x r ih =>
    simp only [List.flatMap_cons, List.length_cons, List.replicate_succ, List.flatten_cons]
    rw [toTrees_append, ih]
    simp [toTrees]

theorem once_tree (n : Nat) : toTree (NewOnce (n : ℤ)) = Tree.fin (List.replicate n 0) 0 := by
  simp only [NewOnce, toTree, Int.toNat_natCast]
  congr 1
  induction n with
  | zero => rfl
  | succ k ih => rw [List.range_succ, List.map_append, ih]; simp [List.replicate_succ']

theorem const0_tree (d : ℤ) : toTree (NewConst (0 : ℝ) d) = Tree.fin [] d := by
  simp [NewConst, toTree, Go.f2i]

/-- number of rounds of the loop `for i := a; i <= upto; i += step` -/
def rounds (upto step a : Nat) : Nat := if a ≤ upto then (upto - a) / step + 1 else 0

theorem rounds_step (upto step a : Nat) (hs : 1 ≤ step) (ha : a ≤ upto) : rounds upto step a = rounds upto step (a + step) + 1 := by
  unfold rounds
  simp only [ha, if_true]
  by_cases h2 : a + step ≤ upto
  · simp only [h2, if_true]
    have : upto - a = (upto - (a + step)) + step := by omega
    rw [this, Nat.add_div_right _ (by omega)]
  · simp only [h2, if_false]
    have : (upto - a) / step = 0 := Nat.div_eq_of_lt (by omega)
    omega

/-- the model's loop, as `rounds` repetitions of the two parts -/
theorem loop_rounds (upto step : Nat) (hs : 1 ≤ step) (dur : Int) : ∀ (fuel a : Nat), upto + 1 ≤ a + fuel →
    instanceStepLoop upto step dur fuel a =
      (List.replicate (rounds upto step a) [Tree.fin [] dur, Tree.fin (List.replicate step 0) 0]).flatten
  | 0, a, h => by
      have : ¬ a ≤ upto := by omega
      simp [instanceStepLoop, rounds, this]
  | fuel + 1, a, h => by
      by_cases ha : a ≤ upto
      · rw [rounds_step upto step a hs ha, List.replicate_succ, List.flatten_cons]
        simp only [instanceStepLoop, ha, if_true]
        rw [loop_rounds upto step hs dur fuel (a + step) (by omega)]
        rfl
      · simp [instanceStepLoop, rounds, ha]

theorem loopLEInt_length (upto step a : Nat) :
    (Go.loopLEInt (a : ℤ) (upto : ℤ) (step : ℤ)).length = rounds upto step a := by
  unfold Go.loopLEInt rounds
  by_cases ha : a ≤ upto
  · have h1 : (a : ℤ) ≤ (upto : ℤ) := by exact_mod_cast ha
    simp only [h1, ha, if_true, List.length_map, List.length_range]
    have h2 : ((upto : ℤ) - (a : ℤ)) = ((upto - a : Nat) : ℤ) := by omega
    rw [h2, ← Int.natCast_ediv, Int.toNat_natCast]
  · have h1 : ¬ (a : ℤ) ≤ (upto : ℤ) := by exact_mod_cast ha
    simp [h1, ha]

/-- **what `NewInstanceStep` of the source builds is the model's `instanceStepTree`** -/
theorem instanceStep_bridge (frm upto step : Nat) (hs : 1 ≤ step) (dur : ℤ) :
    toTree (NewInstanceStep (frm : ℤ) (upto : ℤ) (step : ℤ) dur) = instanceStepTree frm upto step dur := by
  unfold NewInstanceStep instanceStepTree
  simp only [List.nil_append, toTree]
  rw [toTrees_append]
  have hcast : ((frm : ℤ) + (step : ℤ)) = ((frm + step : Nat) : ℤ) := by push_cast; rfl
  rw [hcast, toTrees_flatMap_const, loopLEInt_length, once_tree, const0_tree]
  simp only [toTrees, once_tree, List.cons_append, List.nil_append]
  rw [loop_rounds upto step hs dur (upto + 1) (frm + step) (by omega)]

/-! ### `NewStep` (core/schedule/step.go) -/

theorem toTrees_flatMap_single {α : Type} (l : List α) (f : α → Sched) :
    toTrees (l.flatMap (fun i => [f i])) = l.map (fun i => toTree (f i)) := by
  induction l with
  | nil => simp [toTrees]
  | cons x r ih =>
    simp only [List.flatMap_cons, List.map_cons]
    rw [toTrees_append, ih]
    simp [toTrees]

/-- what the source builds for `step(from, to, step, duration)`: ONE const part when from = to, otherwise the composite
of the const parts with rates from, from+step, from+2·step, … ≤ to, each of the same duration, in this order -/
theorem step_bridge (rFrom rTo : ℝ) (step duration : ℤ) :
    toTree (NewStep rFrom rTo step duration) =
      if rFrom = rTo then toTree (NewConst rFrom duration)
      else Tree.comp ((Go.loopLE rFrom rTo ((step : ℤ) : ℝ)).map (fun i => toTree (NewConst i duration))) := by
  unfold NewStep
  by_cases h : rFrom = rTo
  · simp [h]
  · -- the source may write the comparison either way round (`from == to` / `to == from`)
    have h' : ¬ rTo = rFrom := fun e => h e.symm
    simp only [h, h', if_false, List.nil_append, toTree]
    rw [toTrees_flatMap_single]

end Pandora.Bridge.C02IStep
