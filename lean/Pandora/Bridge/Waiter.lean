/-
Bridge lemmas for C04: the definitions REGENERATED from the current /repo source (`Pandora.Gen.Waiter`, rewritten by
`gen -area waiter` on every check) compute what the hand-written model (`Pandora.Model.C04`) computes.  The property
theorems are stated about the model; a change of `Waiter.Wait`, `IsSlowDown`, `MaxOverdueDuration`, the discard code /
tag, `DiscardedShootSample` or of the fire/discard `if` in `instance.Run` that is not an identity breaks a lemma here.

`Wait_eq` is stated against the REPAIRED `Wait` (`Model.C04.wait`, /repo commit 1006bde): it does not hold of the code as it was
found, whose regenerated `Wait` equals `Model.C04.waitOld` (lateness judged against the cached reading).
`iteration_eq` ties the whole pass of the loop of `instance.Run` (order Acquire → Wait → IsSlowDown → Shoot | Report),
`IsFinished_eq` the loop head, `cliPoolDiscardOverflow_eq` + `cli_default_wiring` the default of `discard_overflow`.
-/
import Pandora.Gen.Waiter
import Pandora.Model.C04
import Pandora.Model.C04Ext

namespace Pandora.Bridge.Waiter
open Pandora.Go.C04 Pandora.Model.C04

theorem MaxOverdueDuration_eq : Gen.Waiter.MaxOverdueDuration = maxOverdue := rfl
theorem DiscardedShootCodeError_eq : Gen.Waiter.DiscardedShootCodeError = discardNetCode := rfl
theorem DiscardedShootTag_eq : Gen.Waiter.DiscardedShootTag = discardTag := rfl
theorem DiscardedShootSample_eq : Gen.Waiter.DiscardedShootSample = discardedShootSample := rfl

/-- the regenerated `(*Waiter).Wait` is the repaired model `wait` (state and result) -/
theorem Wait_eq (w : Waiter) (e : Env) : Gen.Waiter.Wait w e = ((wait w e).w, (wait w e).ok) := by
  unfold Gen.Waiter.Wait wait waitV
  by_cases hc : e.ctxDone = true
  · simp [hc]
  · cases htok : e.tok with
    | none => simp [hc]
    | some next =>
      simp only [hc]
      by_cases h1 : timeSub next w.lastNow ≤ 0
      · simp [h1]
      · by_cases h2 : timeSub next e.now ≤ 0
        · simp [h1, h2]
        · by_cases h3 : e.timerWins = true <;> simp [h1, h2, h3]

/-- the timer is armed for exactly `waitFor = next - now` (the "timer does not fire early" hypothesis of the theorems is
about a timer of that duration) -/
theorem timerArmedFor_eq (waitFor : Int) : Gen.Waiter.timerArmedFor waitFor = waitFor := rfl

theorem IsSlowDown_eq (w : Waiter) (c : Bool) : Gen.Waiter.IsSlowDown w c = isSlowDown w c := by
  unfold Gen.Waiter.IsSlowDown isSlowDown slowCond
  rw [MaxOverdueDuration_eq]

theorem fires_eq (d s : Bool) : Gen.Waiter.fires d s = fires d s := rfl

/-- the fire branch of `instance.Run` calls `gun.Shoot`; the discard branch is exactly one Report of
`DiscardedShootSample()` and contains no Shoot -/
theorem fireBranch_shoots : "i.gun.Shoot(ammo)" ∈ Gen.Waiter.fireBranch := by decide
theorem discardBranch_eq :
    Gen.Waiter.discardBranch = ["i.aggregator.Report(netsample.DiscardedShootSample())"] := rfl

theorem IsFinished_eq (c : Bool) (left : Int) : Gen.Waiter.IsFinished c left = isFinished c left := by
  unfold Gen.Waiter.IsFinished isFinished
  cases c
  · by_cases h : left = 0 <;> simp [h]
  · simp

/-- the regenerated pass of the loop of `(*instance).Run` (Acquire, Wait, IsSlowDown AFTER Wait, Shoot | Report) is the
model's `iteration` with the repaired `Wait`, hence `runLoop .fresh` is what `Run` does pass after pass (`runLoop_cons`) -/
theorem iteration_eq (d : Bool) (w : Waiter) (it : Iter) :
    Gen.Waiter.iteration d w it = iteration .fresh d w it := by
  unfold Gen.Waiter.iteration iteration
  simp only [Wait_eq, IsSlowDown_eq, DiscardedShootSample_eq, wait, fires]
  by_cases hf : it.finished = true
  · simp [hf]
  · by_cases ha : it.ammoOk = true
    · by_cases hk : (waitV .fresh w it.env).ok = true
      · simp [hf, ha, hk]
      · simp [hf, ha, hk]
    · simp [hf, ha]

/-- cli/cli.go `readConfig` + core/engine: a pool section without `discard_overflow` runs with `discardOverflow = true`:
the default is put under the very key the pool option is decoded from, into the `pools` list that is decoded afterwards,
and the instances' `discardOverflow` is copied from that option and written nowhere else. -/
theorem cliPoolDiscardOverflow_eq (g : Option Bool) : Gen.Waiter.cliPoolDiscardOverflow g = effectiveDiscard g := by
  cases g <;> rfl

theorem cli_default_wiring :
    Gen.Waiter.cliDefaultLookupKey = Gen.Waiter.poolConfigDiscardKey ∧
    Gen.Waiter.cliDefaultPutKey = Gen.Waiter.poolConfigDiscardKey ∧
    Gen.Waiter.poolConfigDiscardKey = "discard_overflow" ∧
    Gen.Waiter.cliPoolsGetKey = "pools" ∧ Gen.Waiter.cliPoolsSetKey = "pools" ∧
    Gen.Waiter.cliDecodesAfterDefault = true ∧
    (Gen.Waiter.instanceDiscardFrom ≠ [] ∧ ∀ x ∈ Gen.Waiter.instanceDiscardFrom, x = "InstancePoolConfig.DiscardOverflow") ∧
    Gen.Waiter.discardFieldAssignments = 0 := by decide

/-- docs/eng/best_practices/discard-overflow.md (regenerated `doc*` facts) promises what the source does: the only option it
names is the config key of `InstancePoolConfig.DiscardOverflow`, the default it states is the one `readConfig` applies, every net
code / tag / window length it mentions is `DiscardedShootCodeError` / `DiscardedShootTag` / `MaxOverdueDuration` (in seconds). -/
theorem doc_agrees :
    Gen.Waiter.docOptionKeys = [Gen.Waiter.poolConfigDiscardKey] ∧
    Gen.Waiter.docDefault = Gen.Waiter.cliPoolDiscardOverflow none ∧
    Gen.Waiter.docNetCodes ≠ [] ∧ (∀ c ∈ Gen.Waiter.docNetCodes, c = Gen.Waiter.DiscardedShootCodeError) ∧
    Gen.Waiter.docTags ≠ [] ∧ (∀ t ∈ Gen.Waiter.docTags, t = Gen.Waiter.DiscardedShootTag) ∧
    Gen.Waiter.docWindowSeconds ≠ [] ∧
    (∀ n ∈ Gen.Waiter.docWindowSeconds, n * 1000000000 = Gen.Waiter.MaxOverdueDuration) := by decide

/-- core/engine `buildNewInstanceSchedule` + `newInstance`: with `rps-per-instance` every instance's Waiter runs over its own
schedule, otherwise all of them over ONE schedule created once (wrapped only by the finish callback, which passes `Next`/`Left`
through); the instance's schedule is the one that function returned. -/
theorem scheduleKind_eq (perInstance : Bool) : Gen.Waiter.scheduleKind perInstance = scheduleKind perInstance := by
  cases perInstance <;> rfl

theorem schedule_wiring :
    (∀ w ∈ Gen.Waiter.sharedScheduleWrappers, w = "coreutil.NewCallbackOnFinishSchedule") ∧
    Gen.Waiter.instanceScheduleFrom = "deps.newSchedule()" := by decide

/-- the default block of `readConfig` runs for every config (its only condition is the type assertion of the `pools` list) and for
every pool section (no condition around the per-section lookup): not for some formats, sources or positions only -/
theorem cli_default_unconditional :
    Gen.Waiter.cliDefaultGuard = "type-assertion-only" ∧ Gen.Waiter.cliDefaultInnerGuards = [] := by decide

/-! ### round 4 -/

/-- `readConfig` reads the config (file or standard input) BEFORE the default block looks at its pool sections; every read of
`discardOverflow` in `(*instance).Run` resolves (go/types) to the field the wiring sets, `instanceSharedDeps.discardOverflow` — not to
a field of the same name that shadows it -/
theorem round4_wiring :
    Gen.Waiter.cliReadsConfigBeforeDefault = true ∧
    (Gen.Waiter.runReadsDiscardField ≠ [] ∧
      ∀ x ∈ Gen.Waiter.runReadsDiscardField, x = "instanceSharedDeps.discardOverflow") := by decide

/-- the only wrapper of the shared schedule, `coreutil.callbackOnFinishSchedule`, is transparent: `Next` and `Left` return what the
wrapped schedule's `Next` / `Left` returned, everything else is the embedded schedule's -/
theorem callback_schedule_transparent :
    Gen.Waiter.cbNextTransparent = true ∧ Gen.Waiter.cbLeftTransparent = true ∧ Gen.Waiter.cbEmbedsSchedule = true := by decide

/-! ### round 3 -/

/-- the regenerated `Wait` with the state of `w.timer` threaded through (lazy `NewTimer`, `Reset`, the receive in the final
`select`) is the model's `waitT` -/
theorem WaitT_eq (w : Waiter) (tm : TimerSt) (e : Env) : Gen.Waiter.WaitT w tm e = waitT .fresh w tm e := by
  unfold Gen.Waiter.WaitT waitT TimerSt.arm
  by_cases hc : e.ctxDone = true
  · simp [hc]
  · cases htok : e.tok with
    | none => simp [hc]
    | some next =>
      by_cases h1 : timeSub next w.lastNow ≤ 0 <;> by_cases h2 : timeSub next e.now ≤ 0 <;>
        by_cases h3 : e.timerWins = true <;> simp [hc, h1, h2, h3]

/-- `NewWaiter` sets nothing but the schedule (no timer, zero cached reading, zero overdue: `Waiter.init` and the default `TimerSt`),
and nothing in the package touches a `timer` field except the arming statement and the `case <-w.timer.C` of `Wait` -/
theorem newWaiter_wiring : Gen.Waiter.newWaiterFields = ["sched"] ∧ Gen.Waiter.timerOtherUses = 0 := by decide

/-- every call of the waiter in `(*instance).Run` (`IsFinished`, `Wait`, `IsSlowDown`) gets the context parameter of `Run`, which is
never re-bound: a context that one call saw done is done for every later call (`CtxSticky`, `CtxMono`) -/
theorem run_ctx_wiring : Gen.Waiter.runWaiterCallArgs = [Gen.Waiter.runCtxParam] ∧ Gen.Waiter.runCtxRebound = 0 := by decide

/-- where the phout aggregator prints the net code: the regenerated indices of the `key…` constants are the model's,
`SetUserNet` stores under `keyErrno`, `set` is the plain store, and a line is time stamp, TAB, tags, `#id`, then every field after a TAB -/
theorem phout_wiring :
    Gen.Waiter.phKeyErrno = phKeyErrno ∧ Gen.Waiter.phKeyProtoCode = phKeyProtoCode ∧ Gen.Waiter.phFieldsNum = phFieldsNum ∧
    Gen.Waiter.phSetUserNetKey = "keyErrno" ∧ Gen.Waiter.phSetBody = "s.fields[k] = v" ∧
    Gen.Waiter.phoutLayout = ["timestamp", "TAB", "tags", "#id", "TAB+field*"] := by decide

end Pandora.Bridge.Waiter
