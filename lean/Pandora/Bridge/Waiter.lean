/-
Bridge lemmas for C04: the definitions REGENERATED from the current /repo source (`Pandora.Gen.Waiter`, rewritten by
`gen -area waiter` on every check) compute what the hand-written model (`Pandora.Model.C04`) computes.  The property
theorems are stated about the model; a change of `Waiter.Wait`, `IsSlowDown`, `MaxOverdueDuration`, the discard code /
tag, `DiscardedShootSample` or of the fire/discard `if` in `instance.Run` that is not an identity breaks a lemma here.

`Wait_eq` is stated against the REPAIRED `Wait` (`Model.C04.wait`, fixes/C04-fresh-clock-overdue.diff): it does not hold
of the code as found, whose regenerated `Wait` equals `Model.C04.waitOld` (lateness judged against the cached reading).
-/
import Pandora.Gen.Waiter
import Pandora.Model.C04

namespace Pandora.Bridge.Waiter
open Pandora.Go.C04 Pandora.Model.C04

theorem MaxOverdueDuration_eq : Gen.Waiter.MaxOverdueDuration = maxOverdue := rfl
theorem DiscardedShootCodeError_eq : Gen.Waiter.DiscardedShootCodeError = discardNetCode := rfl
theorem DiscardedShootTag_eq : Gen.Waiter.DiscardedShootTag = discardTag := rfl
theorem DiscardedShootSample_eq : Gen.Waiter.DiscardedShootSample = discardedShootSample := rfl

/-- the regenerated `(*Waiter).Wait` is the repaired model `wait` (state and result) -/
theorem Wait_eq (w : Waiter) (e : Env) : Gen.Waiter.Wait w e = ((wait w e).w, (wait w e).ok) := by
  unfold Gen.Waiter.Wait wait waitV
  by_cases hc : e.ctxDone = true
  · simp [hc]
  · cases htok : e.tok with
    | none => simp [hc]
    | some next =>
      simp only [hc]
      by_cases h1 : timeSub next w.lastNow ≤ 0
      · simp [h1]
      · by_cases h2 : timeSub next e.now ≤ 0
        · simp [h1, h2]
        · by_cases h3 : e.timerWins = true <;> simp [h1, h2, h3]

/-- the timer is armed for exactly `waitFor = next - now` (the "timer does not fire early" hypothesis of the theorems is
about a timer of that duration) -/
theorem timerArmedFor_eq (waitFor : Int) : Gen.Waiter.timerArmedFor waitFor = waitFor := rfl

theorem IsSlowDown_eq (w : Waiter) (c : Bool) : Gen.Waiter.IsSlowDown w c = isSlowDown w c := by
  unfold Gen.Waiter.IsSlowDown isSlowDown slowCond
  rw [MaxOverdueDuration_eq]

theorem fires_eq (d s : Bool) : Gen.Waiter.fires d s = fires d s := rfl

/-- the fire branch of `instance.Run` calls `gun.Shoot`; the discard branch is exactly one Report of
`DiscardedShootSample()` and contains no Shoot -/
theorem fireBranch_shoots : "i.gun.Shoot(ammo)" ∈ Gen.Waiter.fireBranch := by decide
theorem discardBranch_eq :
    Gen.Waiter.discardBranch = ["i.aggregator.Report(netsample.DiscardedShootSample())"] := rfl

end Pandora.Bridge.Waiter
