/-
C03 — bridge for the pool's bookkeeping: the `case` bodies of `(*runAwaitHandle).awaitRun`, the body and the test of
`checkAllInstancesAreFinished` and the initial counters, REGENERATED from the current core/engine/engine.go
(`Pandora.Gen.InstLoop.awaitCase`, `awaitCheckCond`, `awaitCheckBody`, `awaitInit…`), do exactly what the model
`Pandora.Model.C03Await.astep` does — for EVERY state of the handle and every kind of result, not for samples:

* `await_step_eq` — receiving a result by the regenerated statements = `astep`, and no statement outside the
  statement language is met.  Independent statements of a case may be reordered, locals renamed, the test of
  `checkAllInstancesAreFinished` written another way (the proof only unfolds and decides): what must stay is what they
  do — which channel is closed, `toWait--` once, `awaitedInstances++`, the start cancelled only for an out-of-ammo
  result while the start is still running, `runCancel()` only under `isStartFinished() && awaited >= started` …
* `await_init_eq`, `await_loop_eq`, `await_startFinished_eq` — 4 results to wait for, `startedInstances = -1` until the
  start result, the loop runs while `toWait > 0`, the start is finished when `startRes == nil`.
-/
import Pandora.Gen.InstLoop
import Pandora.Model.C03Await

namespace Pandora.Bridge.C03Await
open Pandora.Model.C03Await

theorem await_step_eq (s : ASt) (r : Res) :
    stepBy Gen.InstLoop.awaitCase Gen.InstLoop.awaitCheckCond Gen.InstLoop.awaitCheckBody s r =
      (astep s r).map (fun s' => (s', false)) := by
  obtain ⟨chan, badRun, badStart, ooa, st⟩ := r
  obtain ⟨tw, po, ao, so, ro, sd, aw, sc, rc, er⟩ := s
  cases chan <;> cases po <;> cases ao <;> cases so <;> cases ro <;>
    simp [stepBy, astep, Gen.InstLoop.awaitCase, Gen.InstLoop.awaitCheckCond, Gen.InstLoop.awaitCheckBody, execA, execCheck,
      checkAll, bump, badFor, isIf] <;>
    (try ((repeat' split) <;> simp_all)) <;> (try omega)

theorem await_init_eq :
    Gen.InstLoop.awaitInitToWait = (ainit.toWait : Int) ∧ Gen.InstLoop.awaitInitStarted = ainit.started := by decide

theorem await_loop_eq : Gen.InstLoop.awaitLoop = "for $.toWait > 0 { select }" := rfl

theorem await_startFinished_eq : Gen.InstLoop.awaitStartFinished = "$.startRes == nil" := rfl

end Pandora.Bridge.C03Await
