/-
C18 — bridge between what /verif/gen reads out of core/plugin, core/register and core/engine on every check run
(`Pandora/Gen/Plugin.lean`) and the model (`Model/C18`, `Model/C18Engine`).

* `accepts` — a registration goes through `newImplConstructor` and `newDefaultConfigContainer` (`entryChecks`); it is
  accepted iff every regenerated expectation holds.  `accepts_eq_supported`: for EVERY abstract Go type of the constructor
  and of the optional default-config function this is exactly the declarative list of supported forms (`supported`);
  `accepts_shape`: on the Go types of the 144 shapes the driver registers it is the model's `registerOk`.
* the regenerated structural facts (where user code is called: once per NewFactory or inside the closure = once per
  product; what the result conversion does; what the engine calls how often) equal what the model assumes.
-/
import Pandora.Gen.Plugin
import Pandora.Model.C18
import Pandora.Model.C18Engine
import Pandora.Model.C18Reg

set_option linter.unusedSimpArgs false

namespace Pandora.Bridge.Plugin
open Pandora.Model.C18Ty Pandora.Model.C18 Pandora.Model.C18Reg Pandora.Gen.Plugin

/-- `Registry.Register` → `newNameRegistryEntry` → `newImplConstructor` + `newDefaultConfigContainer`: accepted iff no
expectation fails -/
def accepts (pluginType ctor : Ty) (dflt : Option Ty) : Bool :=
  (newImplConstructorExpects pluginType ctor ++ newDefaultConfigContainerExpects ctor dflt).all id

theorem entryChecks_eq : entryChecks =
    ["newImplConstructor($reflect.Type, $any)", "newDefaultConfigContainer(reflect.TypeOf($any), $any#1)"] := by
  decide

theorem registerStores_eq :
    registerStores = "$nameRegistry[$string] = newNameRegistryEntry($reflect.Type, $any, $any#1)" := by decide

theorem tys_len_zero {ts : Tys} (h : ts.len = 0) : ts = .nil := by
  cases ts with
  | nil => rfl
  | cons _ _ => simp [Tys.len] at h

def lenLe1 : Tys → Bool
  | .nil => true
  | .cons _ .nil => true
  | _ => false

def lenIs0 : Tys → Bool
  | .nil => true
  | _ => false

/-- the regenerated expectations of `expectPluginConstructor`, for a func type -/
theorem expectPlugin_func (p : Ty) (ins outs : Tys) (allowed : Bool) :
    (expectPluginConstructorExpects p (.func ins outs) allowed).all id =
      ((if allowed then lenLe1 ins else lenIs0 ins) &&
       outImplements p outs) := by
  cases allowed <;>
  (cases ins with
   | nil =>
     cases outs with
     | nil => simp [expectPluginConstructorExpects, Ty.kind, Ty.numIn, Ty.numOut, Ty.out, Tys.len, Tys.get, outsOk, outImplements, lenLe1, lenIs0]
     | cons x r =>
       cases r with
       | nil => simp [expectPluginConstructorExpects, Ty.kind, Ty.numIn, Ty.numOut, Ty.out, Tys.len, Tys.get, outsOk, outImplements, lenLe1, lenIs0]
       | cons e r2 =>
         cases r2 with
         | nil => by_cases he : e = Ty.error <;>
             simp [expectPluginConstructorExpects, Ty.kind, Ty.numIn, Ty.numOut, Ty.out, Tys.len, Tys.get, outsOk, outImplements, lenLe1, lenIs0, he]
         | cons _ _ => simp [expectPluginConstructorExpects, Ty.kind, Ty.numIn, Ty.numOut, Ty.out, Tys.len, Tys.get, outsOk, outImplements, lenLe1, lenIs0]
   | cons a ri =>
     cases ri with
     | nil =>
       cases outs with
       | nil => simp [expectPluginConstructorExpects, Ty.kind, Ty.numIn, Ty.numOut, Ty.out, Tys.len, Tys.get, outsOk, outImplements, lenLe1, lenIs0]
       | cons x r =>
         cases r with
         | nil => simp [expectPluginConstructorExpects, Ty.kind, Ty.numIn, Ty.numOut, Ty.out, Tys.len, Tys.get, outsOk, outImplements, lenLe1, lenIs0]
         | cons e r2 =>
           cases r2 with
           | nil => by_cases he : e = Ty.error <;>
               simp [expectPluginConstructorExpects, Ty.kind, Ty.numIn, Ty.numOut, Ty.out, Tys.len, Tys.get, outsOk, outImplements, lenLe1, lenIs0, he]
           | cons _ _ => simp [expectPluginConstructorExpects, Ty.kind, Ty.numIn, Ty.numOut, Ty.out, Tys.len, Tys.get, outsOk, outImplements, lenLe1, lenIs0]
     | cons b ri2 =>
       simp [expectPluginConstructorExpects, Ty.kind, Ty.numIn, Ty.numOut, Tys.len, lenLe1, lenIs0])

theorem factoryOk_eq (p f : Ty) (h : f.kind = .func) :
    (expectPluginConstructorExpects p f false).all id = factoryOk p f := by
  cases f with
  | base k i m =>
    simp [Ty.kind] at h; subst h
    simp [expectPluginConstructorExpects, Ty.kind, Ty.numIn, Ty.numOut, factoryOk]
  | ptr e m => simp [Ty.kind] at h
  | func ins outs =>
    rw [expectPlugin_func]
    cases ins with
    | nil => simp [lenIs0, factoryOk]
    | cons a r => simp [lenIs0, factoryOk]

@[simp] theorem kind_func (a b : Tys) : (Ty.func a b).kind = .func := rfl
@[simp] theorem kind_ptr (e : Ty) (m : Impls) : (Ty.ptr e m).kind = .ptr := rfl
@[simp] theorem kind_base (k : Kind) (i : Nat) (m : Impls) : (Ty.base k i m).kind = k := rfl

/-- the default-config side, for a func type -/
theorem dfltExpects_func (ins outs : Tys) (d : Option Ty) :
    (newDefaultConfigContainerExpects (.func ins outs) d).all id =
      (match ins with
       | .nil => d.isNone
       | .cons c .nil => cfgOk c && (match d with | none => true | some f => f == Ty.funcOf0 c)
       | _ => false) := by
  rcases ins with _ | ⟨c, _ | ⟨c2, ri⟩⟩ <;> cases d <;>
    simp [newDefaultConfigContainerExpects, Ty.numIn, Ty.inp, Tys.len, Tys.get, cfgOk]

theorem implExpects_func (p : Ty) (ins : Tys) (x : Ty) (r : Tys) :
    (newImplConstructorExpects p (.func ins (.cons x r))).all id =
      (lenLe1 ins &&
        (if x.kind == .func then
          (match r with
           | .nil => true
           | .cons e .nil => e == Ty.error
           | _ => false) && factoryOk p x
         else outImplements p (.cons x r))) := by
  by_cases hx : x.kind = .func
  · have hf := factoryOk_eq p x hx
    rcases ins with _ | ⟨c, _ | ⟨c2, ri⟩⟩ <;> rcases r with _ | ⟨e, _ | ⟨e2, ro⟩⟩ <;>
      simp [newImplConstructorExpects, newFactoryConstructorExpects, Ty.numIn, Ty.numOut, Ty.out, Tys.len,
        Tys.get, hx, hf, lenLe1, List.all_append]
  · have hp := expectPlugin_func p ins (.cons x r) true
    simp only [if_true] at hp
    have hx' : (x.kind == Kind.func) = false := by simp [hx]
    simp [newImplConstructorExpects, newPluginConstructorExpects, Ty.numOut, Ty.out, Tys.len, Tys.get, hx, hx',
      hp, List.all_append]

/-- **for every Go type of the constructor and of the optional default-config function: `Register` accepts the
registration iff it has one of the supported forms** -/
theorem accepts_eq_supported (p t : Ty) (d : Option Ty) : accepts p t d = supported p t d := by
  unfold accepts supported
  rw [List.all_append]
  cases t with
  | base k i m =>
    simp [newImplConstructorExpects, supportedCtor, Ty.numOut]
  | ptr e m =>
    simp [newImplConstructorExpects, supportedCtor, Ty.numOut]
  | func ins outs =>
    rw [dfltExpects_func]
    cases outs with
    | nil => simp [newImplConstructorExpects, supportedCtor, Ty.numOut, Tys.len, outsOk]
    | cons x r =>
      rw [implExpects_func]
      rcases r with _ | ⟨e, _ | ⟨e2, ro⟩⟩
      · rcases ins with _ | ⟨c, _ | ⟨c2, ri⟩⟩ <;> cases d <;> by_cases hx : x.kind = .func <;>
        simp [supportedCtor, supportedDflt, insOk, outsOk, outImplements, lenLe1, hx, Ty.numIn, Ty.inp, Tys.len, Tys.get, Bool.and_comm,
          Bool.and_assoc, Bool.and_left_comm]
      · by_cases he : e = Ty.error <;>
        rcases ins with _ | ⟨c, _ | ⟨c2, ri⟩⟩ <;> cases d <;> by_cases hx : x.kind = .func <;>
        simp [supportedCtor, supportedDflt, insOk, outsOk, outImplements, lenLe1, hx, he, Ty.numIn, Ty.inp, Tys.len, Tys.get, Bool.and_comm,
          Bool.and_assoc, Bool.and_left_comm]
      · rcases ins with _ | ⟨c, _ | ⟨c2, ri⟩⟩ <;> cases d <;> by_cases hx : x.kind = .func <;>
        simp [supportedCtor, supportedDflt, insOk, outsOk, outImplements, lenLe1, hx, Ty.numIn, Ty.inp, Tys.len, Tys.get, Bool.and_comm,
          Bool.and_assoc, Bool.and_left_comm]

/-- on the shapes of the model the regenerated expectations are the model's `registerOk` -/
theorem accepts_shape (sh : Shape) : accepts plugT (ctorTy sh) (dfltTy sh) = registerOk sh := by
  obtain ⟨factory, cfg, ctorErr, factErr, iface, dflt⟩ := sh
  cases factory <;> cases cfg <;> cases ctorErr <;> cases factErr <;> cases iface <;> cases dflt <;> decide

/-- `newImplConstructor` takes exactly the factory shapes as factory constructors -/
theorem isFactoryConstructor_shape (sh : Shape) : isFactoryConstructor plugT (ctorTy sh) = sh.factory := by
  obtain ⟨factory, cfg, ctorErr, factErr, iface, dflt⟩ := sh
  cases factory <;> cases cfg <;> cases ctorErr <;> cases factErr <;> cases iface <;> cases dflt <;> decide

theorem isFactoryType_forms : isFactoryType (formTy 1) = true ∧ isFactoryType (formTy 2) = true := by decide

/-- `NewFactory` hands out the registered function itself iff its type IS the requested type
(`pluginShortcut` / `factoryShortcut`): exactly the model's `direct` / `directFactory` conditions -/
theorem shortcut_plugin (sh : Shape) (n : Nat) (hn : n = 1 ∨ n = 2) (hf : sh.factory = false) :
    (ctorTy sh == formTy n) = (sh.cfg = .none && sh.iface && (outLen sh.ctorErr == n)) := by
  obtain ⟨factory, cfg, ctorErr, factErr, iface, dflt⟩ := sh
  simp only at hf; subst hf
  rcases hn with rfl | rfl <;> cases cfg <;> cases ctorErr <;> cases factErr <;> cases iface <;> cases dflt <;> decide

theorem shortcut_factory (sh : Shape) (n : Nat) (hn : n = 1 ∨ n = 2) (hf : sh.factory = true) :
    ((ctorTy sh).out 0 == formTy n) = (sh.iface && (outLen sh.factErr == n)) := by
  obtain ⟨factory, cfg, ctorErr, factErr, iface, dflt⟩ := sh
  simp only at hf; subst hf
  rcases hn with rfl | rfl <;> cases cfg <;> cases ctorErr <;> cases factErr <;> cases iface <;> cases dflt <;> decide

theorem shortcuts_eq :
    pluginShortcut = "$*pluginConstructor.newPlugin.Type() == $reflect.Type => return $*pluginConstructor.newPlugin.Interface(), nil" ∧
    factoryShortcut = "$reflect.Value.Type() == $reflect.Type => return $reflect.Value.Interface(), nil" := by decide

/-- `Register`'s own three expectations are the model's `regSelfOk` -/
theorem registerExpects_eq (pt : Ty) (name : String) (dup : Bool) :
    (registerExpects pt name dup).all id = regSelfOk pt (name == "") dup := by
  -- whichever order the three expectations come in
  by_cases hn : name = "" <;> cases dup <;> cases hk : (pt.kind == Kind.iface) <;>
    simp [registerExpects, regSelfOk, hn, bne, hk]

/-- `Register`'s own expectations hold for an interface plugin type, a non-empty name, a name not yet taken -/
theorem registerExpects_ok : (registerExpects plugT "x" false).all id = true := by decide
theorem registerExpects_refuses :
    (registerExpects confT "x" false).all id = false ∧ (registerExpects plugT "" false).all id = false ∧
    (registerExpects plugT "x" true).all id = false := by decide

/-! ### result conversion -/

/- Round 6: the former text readings `convert_eq` (convertFactoryOutParams) and `confErr_eq` (the config-error switch of the
MakeFunc closure) are replaced by SEMANTIC ones — decision tables obtained by evaluating the Go functions on their whole
abstract input space, proved equal to the model's `convertOut` / `callFac` in `Proofs/C18R6` (`convert_sem`, `confErr_sem`,
`confErr_model`) and stated in `Props/C18` as `C18_convert`.  A behaviour-preserving rewrite of those functions (if instead of
switch, swapped operands, early return) no longer breaks an obligation; a semantic change still does. -/

/-! ### where user code is called -/

/-- (outside function literals, inside function literals, inside loops) -/
def site (tbl : List (String × String × Nat × Nat × Nat)) (fn callee : String) : Option (Nat × Nat × Nat) :=
  (tbl.find? fun r => r.1 == fn && r.2.1 == callee).map (·.2.2)

/-- `Registry.New` = one `Get` + one `NewPlugin` (model `regNew`) -/
theorem sites_New :
    site callSites "Registry.New" "$nameRegistryEntry.defaultConfig.Get" = some (1, 0, 0) ∧
    site callSites "Registry.New" "$nameRegistryEntry.constructor.NewPlugin" = some (1, 0, 0) := by decide

/-- `Registry.NewFactory`: `Get` only inside the `getMaybeConfig` closure, the empty-struct fillConf check outside,
one `NewFactory` of the constructor (model `regNewFactory`) -/
theorem sites_NewFactory :
    site callSites "Registry.NewFactory" "$nameRegistryEntry.defaultConfig.Get" = some (0, 1, 0) ∧
    site callSites "Registry.NewFactory" "$func" = some (1, 0, 0) ∧
    site callSites "Registry.NewFactory" "$nameRegistryEntry.constructor.NewFactory" = some (1, 0, 0) ∧
    newFactoryBranches = ["$nameRegistryEntry.defaultConfig.configRequired()", "$func != nil"] := by decide

/-- `Get` = at most one `new` + at most one fillConf; `new` = one call of the default-config function (model `dcGet`,
`dcNew`) -/
theorem sites_Get :
    site callSites "defaultConfigContainer.Get" "$defaultConfigContainer.new" = some (1, 0, 0) ∧
    site callSites "defaultConfigContainer.Get" "$func" = some (1, 0, 0) ∧
    site callSites "defaultConfigContainer.new" "$defaultConfigContainer.newValue.Call" = some (1, 0, 0) := by decide

/-- a struct default value is copied into an addressable config, a nil pointer is replaced by a new zero config
(model `dcNew`) -/
theorem newConfig_eq : newConfigSwitch =
    [("reflect.Struct", "if !$reflect.Value.CanAddr() { $reflect.Value#1 := reflect.New($reflect.Value.Type()).Elem() ; $reflect.Value#1.Set($reflect.Value) ; $reflect.Value = $reflect.Value#1 } ; $any = $reflect.Value.Addr().Interface()"),
     ("reflect.Ptr", "if $reflect.Value.IsNil() { $reflect.Value = reflect.New($reflect.Value.Type().Elem()) } ; $any = $reflect.Value.Interface()"),
     ("default", "panic(\"unexpected type \" + $reflect.Value.String())")] := rfl

/-- **component constructor**: config and constructor are called INSIDE the closure handed to reflect.MakeFunc — once
per product (model `callFac (.wrapPlugin _)`); `NewPlugin` calls the constructor once (model `pluginCtor`) -/
theorem sites_pluginConstructor :
    site callSites "pluginConstructor.NewFactory" "$func" = some (0, 1, 0) ∧
    site callSites "pluginConstructor.NewFactory" "$*pluginConstructor.newPlugin.Call" = some (0, 1, 0) ∧
    site callSites "pluginConstructor.NewFactory" "convertFactoryOutParams" = some (0, 1, 0) ∧
    site callSites "pluginConstructor.NewPlugin" "$*pluginConstructor.newPlugin.Call" = some (1, 0, 0) := by decide

/-- **factory constructor**: config and constructor are called OUTSIDE the closure — once per `NewFactory` — and only the
registered factory inside — once per product (model `ctorNewFactory`, `callFac (.wrapFactory _ _)`); `NewPlugin` calls
constructor and factory once each (model `newPlugin`) -/
theorem sites_factoryConstructor :
    site callSites "factoryConstructor.NewFactory" "$func" = some (1, 0, 0) ∧
    site callSites "factoryConstructor.NewFactory" "$*factoryConstructor.callNewFactory" = some (1, 0, 0) ∧
    site callSites "factoryConstructor.NewFactory" "$reflect.Value.Call" = some (0, 1, 0) ∧
    site callSites "factoryConstructor.NewFactory" "convertFactoryOutParams" = some (0, 1, 0) ∧
    site callSites "factoryConstructor.NewPlugin" "$*factoryConstructor.callNewFactory" = some (1, 0, 0) ∧
    site callSites "factoryConstructor.NewPlugin" "$reflect.Value.Call" = some (1, 0, 0) ∧
    site callSites "factoryConstructor.callNewFactory" "$*factoryConstructor.newFactory.Call" = some (1, 0, 0) := by decide

/-! ### the engine's use of the factories, core/register -/

open Pandora.Model.C18Engine in
/-- `warmUpGun` calls `NewGun` once, `newInstance` calls `newGun` (= `p.NewGun`) and `newSchedule` once each and is
itself called once for the first instance and once per further instance (`runNewInstance`, in the start loop); the
shared rps schedule is made by one `NewRPSSchedule` call, the per-instance one is `NewRPSSchedule` itself -/
theorem engine_sites :
    site engineSites "instancePool.warmUpGun" "$*instancePool.NewGun" = some (warmupGunCalls, 0, 0) ∧
    site engineSites "newInstance" "$instanceDeps.newGun" = some (gunCallsPerInstance, 0, 0) ∧
    site engineSites "newInstance" "$instanceDeps.newSchedule" = some (1, 0, 0) ∧
    site engineSites "runNewInstance" "newInstance" = some (1, 0, 0) ∧
    site engineSites "instancePool.startInstances" "newInstance" = some (1, 0, 0) ∧
    site engineSites "instancePool.startInstances" "runNewInstance" = some (0, 1, 1) ∧
    site engineSites "instancePool.startInstances" "$*instancePool.NewGun" = some (0, 0, 0) ∧
    site engineSites "instancePool.buildNewInstanceSchedule" "$*instancePool.NewRPSSchedule" = some (1, 0, 0) ∧
    engineDeps = ["newGun: $*instancePool.NewGun", "newSchedule: $func"] ∧
    enginePerInstanceBranch = "if $*instancePool.RPSPerInstance { return $*instancePool.NewRPSSchedule, nil }" := by decide

/-- core/register: every helper registers for the plugin interface of its name through `plugin.Register` -/
theorem register_helpers :
    registerPtrBody = "plugin.Register(plugin.PtrType($any), $string, $any#1, $[]any...)" ∧
    registerHelpers =
      [("Aggregator", "*core.Aggregator", "RegisterPtr($*core.Aggregator, $string, $any, $[]any...)"),
       ("DataSink", "*core.DataSink", "RegisterPtr($*core.DataSink, $string, $any, $[]any...)"),
       ("DataSource", "*core.DataSource", "RegisterPtr($*core.DataSource, $string, $any, $[]any...)"),
       ("Gun", "*core.Gun", "RegisterPtr($*core.Gun, $string, $any, $[]any...)"),
       ("Limiter", "*core.Schedule", "RegisterPtr($*core.Schedule, $string, $any, $[]any...)"),
       ("Provider", "*core.Provider", "RegisterPtr($*core.Provider, $string, $any, $[]any...)")] :=
  ⟨rfl, rfl⟩

/-! ### lookup and registration in a registry that holds several registrations (model: `Model/C18Sess`) -/

/-- `get`: the plugin type is looked up first, then the name in that type's table; each miss leaves with an error result
and nothing else happens — the model's `findSlot` / `Out.noEntry` -/
theorem get_steps : getSteps =
    ["lookup $*Registry.typeToNameReg[$reflect.Type]", "if !$bool { $error = errors.Errorf(…) ; return }",
     "lookup $nameRegistry[$string]", "if !$bool { $error = errors.Errorf(…) }", "return"] ∧
    site callSites "Registry.get" "errors.Errorf" = some (2, 0, 0) := by decide

/-- `Register`: two expectations (interface, non-empty name), THEN the name table of the plugin type is fetched or created
and stored, then the duplicate check on (type, name), then constructor checks and the
store of the entry — the order the model's `exec (.register r)` follows (a refused constructor leaves the table behind) -/
theorem register_steps : registerSteps =
    ["expect", "expect", "$nameRegistry := $*Registry.typeToNameReg[$reflect.Type]",
     "if $nameRegistry == nil { $nameRegistry = newNameRegistry() ; $*Registry.typeToNameReg[$reflect.Type] = $nameRegistry }",
     "_, $bool := $nameRegistry[$string]", "expect",
     "$nameRegistry[$string] = newNameRegistryEntry($reflect.Type, $any, $any#1)"] := by decide

/-- `Lookup` answers whether the plugin type owns a name table (model: `sst.types.contains t`) -/
theorem lookup_steps : lookupSteps = ["_, $bool := $*Registry.typeToNameReg[$reflect.Type]", "return $bool"] := by decide

/-! ### the config hooks (model: `Model/C18Hook`) -/

/-- `Hook` / `FactoryHook`: first `Lookup` / `LookupFactory` of the field's type — data handed back untouched when it
answers no —, then `parseConf` whose error is the hook's error, then the creation by the parsed name with the parsed
fillConf: the model's `hook` -/
theorem hook_steps :
    hookSteps = ["if !plugin.Lookup($reflect.Type#1) { return $any, nil }",
      "$string, $func, $error := parseConf($reflect.Type#1, $any)", "if $error != nil { return }",
      "return plugin.New($reflect.Type#1, $string, $func)"] ∧
    factoryHookSteps = ["if !plugin.LookupFactory($reflect.Type#1) { return $any, nil }",
      "$string, $func, $error := parseConf($reflect.Type#1, $any)", "if $error != nil { return }",
      "return plugin.NewFactory($reflect.Type#1, $string, $func)"] := by decide

/-- `parseConf`: the plugin-name key is compared after lower-casing, its value must be a string, there must be neither
none nor several of them, and exactly the key that was met is deleted from the data (membership, not equality: the
repair of the empty-name defect adds one more test) -/
theorem parseConf_checks :
    "PluginNameKey == strings.ToLower($string#1)" ∈ parseConfConds ∧ "!$bool" ∈ parseConfConds ∧
    "len($[]string) == 0" ∈ parseConfConds ∧ "len($[]string) > 1" ∈ parseConfConds ∧
    parseConfDeletes = ["delete($map[string]interface{}, $string#1)"] := by decide

/-- a `return` of `parseConf` that cannot hand out a nil error: it sits under `if err != nil`, or right after
`err = errors.Errorf(…)` (named results, no explicit result list) -/
def isErrorReturn (e : String × String × String × String × String) : Bool :=
  e.1 == "ret" && e.2.2.2.2 == "" &&
    (e.2.1 == "$error != nil" || (e.2.2.1 == "$error" && e.2.2.2.1 == "errors.Errorf"))

/-- every way out of `parseConf` before the fillConf result is assigned is an error return; the assignment is
unconditional and assigns a closure; after it there is only the final plain `return` -/
def flowAlwaysFills (l : List (String × String × String × String × String)) : Bool :=
  match l.span (fun e => e.1 != "fill") with
  | (before, [("fill", "", "", "func", ""), ("ret", "", _, _, "")]) => before.all isErrorReturn
  | _ => false

/-- **whoever gets a nil error from `parseConf` gets a fillConf** (never a nil one — also when the user's settings are
empty after the `type` key was taken out), and that fillConf is `config.DecodeAndValidate`: decode AND validate.  This is
what makes `Spec.C18.validating` (fillConf always given, fails on an invalid configuration) the world of the hook path:
`plugin.New` / `NewFactory` skip the fill step — and with it the validation of the default configuration — for a nil
fillConf.  Robust against further checks (each must leave with `err = errors.Errorf(…); return`), reordered checks and
renamed locals. -/
theorem parseConf_fills : flowAlwaysFills parseConfFlow = true ∧
    (parseConfDecoder = ["config.DecodeAndValidate"] ∨ parseConfDecoder = ["config.Decode", "config.Validate"]) := by
  decide

/-- `toStringKeyMap` hands `parseConf` a COPY of the decoder's data (its map result is only ever assigned a fresh `make`,
and the only map it writes to is that result): taking the `type` key out never changes the data a factory decodes again
for its next product (`C18_hook`'s "the user's settings are all other entries" holds at EVERY fillConf invocation) -/
theorem keyMap_copies :
    keyMapFrom ≠ [] ∧ keyMapFrom.all (· == "make") = true ∧
    keyMapWrites.all (· == "$map[string]interface{}") = true := by decide

/-! ### round 4: the decoder of the hook path (core/config `newDecoderConfig`, `Decode`, `DecodeAndValidate`) -/

/-- the flags `Model/C18Over.decode` is instantiated with: ZeroFields = false (a map / pointer / array option keeps what the
registered default holds and the settings do not name, an explicit null leaves the default alone), unknown keys are
errors, no weak typing -/
theorem decoder_flags : decoderZeroFields = false ∧ decoderErrorUnused = true ∧ decoderWeaklyTyped = false := by decide

/-- every `Decode` works on a DecoderConfig of its own whose Result is the configuration it was given: concurrent
creations (every instance of a pool builds its gun in its own goroutine) cannot decode into each other's configuration.
Robust against building the literal in a local variable first and against renamed parameters. -/
theorem decoder_fresh :
    decoderFresh = true ∧ decoderResultFrom = "$any" ∧ decodeMakes = ["newDecoderConfig($any#1)"] := by decide

/-- the fillConf of the hook path validates what it decoded (`parseConf_fills` says the closure calls this function) -/
theorem decode_validates : decodeAndValidateCalls = ["Decode($any, $any#1)", "Validate($any#1)"] := by decide

end Pandora.Bridge.Plugin
