/-
C15 bridge: what /verif/gen re-extracted from the CURRENT source (`Pandora/Gen/C15Scen.lean`, area `c15scen`) IS what the
model says — so the property theorems of `Props/C15.lean` are re-checked against the code as it is now.

  `nextCode_eq`      the instruction list of `(*NextIterator).Next` is `Model.C15.nextCode`
  `nextIndex_eq`     what `calcIndex` does with the value of `iter.Next` is `rowOf`
  `GCD_eq`           lib/math.GCD  = `Model.C15.GCD`   (same loop, same fuel)
  `GCDM_eq`          lib/math.GCDM = `Model.C15.GCDM`  (recursion over prefixes = recursion over the reversed list)
  `spreadNames_eq`   `Model.C15.spreadNames` computes with the regenerated arithmetic of `config.SpreadNames`
  `refused_eq`       the weights `decodeAmmo` refuses are the negative ones
  `failed_sample_eq` the failed sample of the model carries the regenerated tag `<scenario><sep><step>|__EMPTY__` and code
-/
import Pandora.Gen.C15Scen
import Pandora.Model.C15Lock
import Pandora.Proofs.C15Gcd

namespace Pandora.Bridge.C15Scen
open Pandora.Model.C15 Pandora.Proofs.C15

theorem nextCode_eq : Gen.C15Scen.nextCode = nextCode := by decide

theorem nextIndex_eq (i L : Nat) : Gen.C15Scen.nextIndex (i : Int) (L : Int) = ((rowOf L i : Nat) : Int) := by
  unfold Gen.C15Scen.nextIndex rowOf
  by_cases h : i ≥ L
  · have h' : (i : Int) ≥ (L : Int) := by omega
    simp only [h, h', if_true]
    rw [Int.tmod_eq_emod_of_nonneg (by omega)]
    exact (Int.natCast_emod i L).symm
  · have h' : ¬ (i : Int) ≥ (L : Int) := by omega
    simp only [h, h', if_false]

theorem GCD_loop_eq : ∀ (f : Nat) (a b : Int), Gen.C15Scen.GCD_loop f a b = gcdLoop f a b
  | 0, _, _ => rfl
  | f + 1, a, b => by
    simp only [Gen.C15Scen.GCD_loop, gcdLoop, GCD_loop_eq f]

theorem GCD_eq (a b : Int) : Gen.C15Scen.GCD a b = GCD a b := by
  unfold Gen.C15Scen.GCD GCD
  rw [GCD_loop_eq]
  cases gcdLoop (a.toNat + b.toNat + 1) a b with
  | none => rfl
  | some p =>
    obtain ⟨x, y⟩ := p
    simp only [Option.map]
    split <;> rfl

theorem idx_snoc2_fst (p : List Int) (y x : Int) :
    Gen.C15Scen.idx? (p ++ [y, x]) (((p ++ [y, x]).length : Int) - 2) = some y := by
  unfold Gen.C15Scen.idx?
  have hl : (((p ++ [y, x]).length : Int) - 2) = (p.length : Int) := by
    simp only [List.length_append, List.length_cons, List.length_nil]; omega
  rw [hl]
  simp

theorem idx_snoc2_snd (p : List Int) (y x : Int) :
    Gen.C15Scen.idx? (p ++ [y, x]) (((p ++ [y, x]).length : Int) - 1) = some x := by
  unfold Gen.C15Scen.idx?
  have hl : (((p ++ [y, x]).length : Int) - 1) = ((p.length + 1 : Nat) : Int) := by
    simp only [List.length_append, List.length_cons, List.length_nil]; omega
  rw [hl]
  have : (p ++ [y, x])[p.length + 1]? = some x := by
    rw [List.getElem?_append_right (by omega)]
    simp
  have h0 : (0 : Int) ≤ ((p.length + 1 : Nat) : Int) := by omega
  rw [if_pos h0, Int.toNat_natCast]
  exact this

theorem slice_snoc2 (p : List Int) (y x : Int) :
    Gen.C15Scen.slice? (p ++ [y, x]) 0 (((p ++ [y, x]).length : Int) - 1) = some (p ++ [y]) := by
  unfold Gen.C15Scen.slice?
  have hl : (((p ++ [y, x]).length : Int) - 1) = ((p.length + 1 : Nat) : Int) := by
    simp only [List.length_append, List.length_cons, List.length_nil]; omega
  rw [hl]
  have h1 : (0 : Int) ≤ 0 ∧ (0 : Int) ≤ ((p.length + 1 : Nat) : Int) ∧
      ((p.length + 1 : Nat) : Int) ≤ ((p ++ [y, x]).length : Nat) := by
    refine ⟨Int.le_refl _, by omega, ?_⟩
    simp
  rw [if_pos h1]
  have : (p ++ [y, x]).take (p.length + 1) = p ++ [y] := by
    rw [List.take_append, List.take_of_length_le (by omega)]
    simp
  rw [Int.toNat_natCast, this]
  rfl

/-- `GCDM` recursing over prefixes is the model's recursion over the reversed list -/
theorem GCDM_rec_eq : ∀ (fuel : Nat) (r : List Int), r.length < fuel →
    Gen.C15Scen.GCDM_rec fuel r.reverse = gcdmRev r
  | 0, _, h => by omega
  | fuel + 1, [], _ => by
    simp [Gen.C15Scen.GCDM_rec, gcdmRev]
  | fuel + 1, [x], _ => by
    simp [Gen.C15Scen.GCDM_rec, gcdmRev]
  | fuel + 1, x :: y :: rest, h => by
    have hrev : (x :: y :: rest).reverse = rest.reverse ++ [y, x] := by simp
    have hlen : ((rest.reverse ++ [y, x]).length : Int) = (rest.length : Int) + 2 := by simp
    have hlt : ¬ (((rest.reverse ++ [y, x]).length : Int) < 2) := by rw [hlen]; omega
    have ih := GCDM_rec_eq fuel (y :: rest) (by simp at h ⊢; omega)
    have hrev' : (y :: rest).reverse = rest.reverse ++ [y] := by simp
    rw [hrev'] at ih
    rw [hrev]
    simp only [Gen.C15Scen.GCDM_rec, hlt, if_false, idx_snoc2_fst, idx_snoc2_snd, slice_snoc2, Option.bind_some,
      GCD_eq, ih]
    rw [gcdmRev_cons2]
    cases hg : GCD y x with
    | none => rfl
    | some res =>
      simp only [Option.bind_some]
      by_cases he : rest = []
      · subst he
        simp
      · have h2 : ¬ (((rest.reverse ++ [y, x]).length : Int) = 2) := by
          rw [hlen]
          have : rest.length ≠ 0 := fun c => he (List.length_eq_zero_iff.mp c)
          omega
        have hemp : rest.isEmpty = false := by
          cases rest with
          | nil => exact absurd rfl he
          | cons _ _ => rfl
        simp only [h2, if_false, hemp, Bool.false_eq_true]
        cases gcdmRev (y :: rest) with
        | none => rfl
        | some g =>
          simp only [Option.bind_some]
          cases GCD g res <;> rfl

theorem GCDM_eq (ws : List Int) : Gen.C15Scen.GCDM ws = GCDM ws := by
  unfold Gen.C15Scen.GCDM GCDM
  have := GCDM_rec_eq (ws.length + 1) ws.reverse (by simp)
  simpa using this

/-- `SpreadNames` of the model, written with the regenerated arithmetic of `config.SpreadNames`: the early returns
for no / one scenario, the effective weight, the divisor `GCDM(weights...)`, the per-scenario count `weight / div`
and the running total -/
theorem spreadNames_eq (scs : List ScenarioCfg) :
    spreadNames scs =
      match scs with
      | [] => .ok ([], Gen.C15Scen.spreadEmpty)
      | [s] => .ok ([(s.name, Gen.C15Scen.spreadSingle.1)], Gen.C15Scen.spreadSingle.2)
      | _ =>
        let ws := scs.map fun s => Gen.C15Scen.spreadEffWeight s.weight
        match Gen.C15Scen.spreadDiv ws with
        | none => .panic "gcd-fuel"
        | some div =>
          if div == 0 then .panic "div0" else
          let cnts := ws.map fun w => Gen.C15Scen.spreadCnt w div
          .ok ((scs.map (·.name)).zip cnts, cnts.foldl Gen.C15Scen.spreadTotalStep 0) := by
  have hw : (fun (s : ScenarioCfg) => Gen.C15Scen.spreadEffWeight s.weight) =
      fun s => if s.weight == 0 then 1 else s.weight := by
    funext s
    unfold Gen.C15Scen.spreadEffWeight
    by_cases h : s.weight = 0 <;> simp [h]
  have ht : Gen.C15Scen.spreadTotalStep = fun (a b : Int) => a + b := rfl
  have hc : ∀ div, (fun (w : Int) => Gen.C15Scen.spreadCnt w div) = fun w => Int.tdiv w div := fun _ => rfl
  match scs with
  | [] => rfl
  | [s] => rfl
  | a :: b :: rest =>
    simp only [spreadNames, Gen.C15Scen.spreadDiv, GCDM_eq, hw, ht, hc]
    rfl

/-- `decodeAmmo` of the model refuses exactly the weights the code refuses -/
theorem refused_eq (scs : List ScenarioCfg) :
    (scs.any fun sc => decide (sc.weight < 0)) = scs.any fun sc => decide (Gen.C15Scen.weightRefused sc.weight) := rfl

/-- the sample `reportErr` produces for a failed step: tag `<scenario>.<step>|__EMPTY__`, proto code 0, error set -/
theorem failed_sample_eq {Req : Type} (scName stepName : String) :
    (Ev.sample (failTag (scName ++ "." ++ stepName)) 0 true : Ev Req) =
      .sample (scName ++ Gen.C15Scen.stepTagSep ++ stepName ++ Gen.C15Scen.tagSep ++ Gen.C15Scen.emptyTag)
        Gen.C15Scen.failCode Gen.C15Scen.failTagged := rfl

/-- round 6 (repair 4cfc662): the refusal of the model's `decodeAmmo` after `SpreadNames` is `config.CheckSpread` as
regenerated — the total is refused, or the count of some scenario is -/
theorem spreadRefused_iff (names : List (List Char × Int)) (total : Int) :
    spreadRefused names total = true ↔
      (Gen.C15Scen.spreadTotalRefused total ∨ ∃ nc ∈ names, Gen.C15Scen.spreadCntRefused nc.2) := by
  unfold spreadRefused Gen.C15Scen.spreadTotalRefused Gen.C15Scen.spreadCntRefused maxSpreadSize
  simp only [Bool.or_eq_true, decide_eq_true_eq, List.any_eq_true]
  -- whatever the order and spelling of the two comparisons in the source: linear arithmetic
  all_goals
    constructor
    · rintro (h | ⟨nc, hm, h⟩)
      · exact Or.inl (by omega)
      · exact Or.inr ⟨nc, hm, by omega⟩
    · rintro (h | ⟨nc, hm, h⟩)
      · exact Or.inl (by omega)
      · exact Or.inr ⟨nc, hm, by omega⟩

/-- `decodeAmmo` hands the result of `SpreadNames` to `CheckSpread` before it allocates the ring -/
theorem spreadChecked_eq : Gen.C15Scen.spreadChecked = true := rfl

end Pandora.Bridge.C15Scen
