/-
C02 — bridge for `Pandora/Gen/C02Leaf.lean` (area `c02leaf`, re-extracted from core/schedule on every check): the
statements by which the leaves touch their shared state are the ones the concurrent leaf model
`Model/C02LeafPar.lean` is made of — `Next`: the once, then ONE statement of accesses; `Left`: ONE statement — and
every plain field of a leaf is written inside its once only.
-/
import Pandora.Gen.C02Leaf
import Pandora.Model.C02LeafPar
import Pandora.Model.C02Pub

namespace Pandora.Bridge.C02Leaf
open Pandora.Gen.C02Leaf Pandora.Model.C02.LeafPar

/-- per (type, method) ALL accesses in source order, statement boundaries forgotten (splitting a condition into two
statements or merging two changes nothing) -/
def flatAccesses (t : List (String × String × List (List String))) : List (String × String × List String) :=
  t.map fun r => (r.1, r.2.1, r.2.2.flatten)

/-- the regenerated accesses are those of the model -/
theorem accesses_eq : flatAccesses leafAccesses =
    [("doAtSchedule", "Left", doAtLeftAccesses.flatten), ("doAtSchedule", "Next", doAtNextAccesses.flatten),
     ("unlimitedSchedule", "Left", unlLeftAccesses.flatten), ("unlimitedSchedule", "Next", unlNextAccesses.flatten)] := by decide

/-- what a call does to shared state once the once is behind it -/
def afterOnce (t : List String) : List String := t.filter (fun s => s != "startOnce.Do")

/-- reads of write-once locations (`finish` and the started flag are written inside the once only) -/
def isRead (a : String) : Bool := a == "finish.Load" || a == "IsStarted()" || a == "started.Load"

def nodupB : List String → Bool
  | [] => true
  | a :: r => !r.contains a && nodupB r

/-- the structural reason for linearizability: apart from the once, every `Next` and every `Left` of every leaf either
performs exactly ONE operation on shared state (the fetch-and-increment `i.Inc`, the load `i.Load`) or only reads
distinct write-once locations (`finish`, the started flag: written inside the once only); and `Next` passes the once
first -/
theorem one_access : ∀ r ∈ flatAccesses leafAccesses,
    ((afterOnce r.2.2).length = 1 ∨ ((afterOnce r.2.2).all isRead = true ∧ nodupB (afterOnce r.2.2) = true)) ∧
    (r.2.1 = "Next" → r.2.2.head? = some "startOnce.Do") ∧
    (r.2.1 = "Left" → afterOnce r.2.2 = r.2.2) := by decide

/-- the token index is taken by ONE fetch-and-increment (not a load and a store, not a load and an increment), and
`Left` loads it once -/
theorem index_is_fetch_and_increment :
    (flatAccesses leafAccesses).filter (fun r => r.1 == "doAtSchedule") =
      [("doAtSchedule", "Left", ["i.Load"]), ("doAtSchedule", "Next", ["startOnce.Do", "i.Inc"])] := by decide

/-- plain fields of a leaf are written inside the once only (so reading them after the once is not an access) -/
theorem plain_writes_in_once : ∀ r ∈ leafPlainWrites, r.2.2.2 = true := by decide

/-! ### round 6: the ORDER in which a starting unlimited leaf publishes, and in which `Left` reads -/

open Pandora.Model.C02.Pub in
/-- accesses of one method in execution order -/
def orderOf (ty m : String) : List String :=
  ((leafOrder.filter (fun r => r.1 == ty && r.2.1 == m)).map (·.2.2)).flatten

open Pandora.Model.C02.Pub in
/-- **the source stores the finish time BEFORE it raises the started flag** — in `Next` (inside the once) and in
`Start` — **and `Left` loads the flag BEFORE the finish time**: the orders `Proofs/C02R6Pub.lean publish_safe` is about.
Only the relative order of these stores / loads is compared (other accesses, helper methods, renamed locals and
split statements do not matter); swapping the two stores (the code before fix 4d9aa06) or the two loads breaks it. -/
theorem unlimited_publish_order :
    wOrder (orderOf "unlimitedSchedule" "Next") = [.storeFinish, .storeStarted] ∧
    wOrder (orderOf "unlimitedSchedule" "Start") = [.storeFinish, .storeStarted] ∧
    rOrder (orderOf "unlimitedSchedule" "Left") = [.loadStarted, .loadFinish] := by decide

end Pandora.Bridge.C02Leaf
