/-
C15 (round 4) — bridge between what /verif/gen (area `c15tmpl`) re-extracted from the CURRENT source of the templaters
(`templater_text.go`, `templater_html.go`, `template_key.go`) and of `ammo.go`, and the model (Model/C15Tmpl.lean).

  `applyCodeText_eq`, `applyCodeHTML_eq`   the three regions of `Apply` (URL, one header, body) as statement lists, their cache-key sites
  `getCodeText_eq`, `getCodeHTML_eq`       `getTemplate`: load; on a miss parse, check, store; return
  `keyFields_eq`                           `templateKey` has exactly the four string fields the sites fill
  `partsFresh_ok`                          `GetHeaders` / `GetBody` hand copies to `Apply`
  `sites_distinct`, `keyOf_inj`            different slots (scenario, step, part, header name) have different cache keys
  `applies_gen`                            every sequence of `Apply` calls as regenerated renders every part on its own
  `jsonpathCode_eq`, `jsonpath_gen`        `var/jsonpath`'s `Process` as regenerated is `varJsonpath` (empty mapping / decode / every path must resolve)
-/
import Pandora.Gen.C15Tmpl
import Pandora.Proofs.C15Tmpl
import Pandora.Proofs.C15Jpath

namespace Pandora.Bridge.C15Tmpl
open Pandora.Model.C15 Pandora.Proofs.C15

theorem applyCodeText_eq : Gen.C15Tmpl.applyCodeText = applyCode := by decide
theorem applyCodeHTML_eq : Gen.C15Tmpl.applyCodeHTML = applyCode := by decide
theorem getCodeText_eq : Gen.C15Tmpl.getCodeText = getCode := by decide
theorem getCodeHTML_eq : Gen.C15Tmpl.getCodeHTML = getCode := by decide
theorem keyFields_eq : Gen.C15Tmpl.keyFields = ["scenario", "step", "part", "key"] := by decide
theorem partsFresh_ok : Gen.C15Tmpl.partsFresh.all (·.2) = true := by decide

/-- the `part` constants of the three sites are pairwise different, every site fills scenario and step, only the header
site fills `key` -/
theorem sites_distinct :
    let a := Gen.C15Tmpl.applyCodeText
    a.url.site.part ≠ a.header.site.part ∧ a.url.site.part ≠ a.body.site.part ∧ a.header.site.part ≠ a.body.site.part ∧
    [a.url.site, a.header.site, a.body.site].all (fun s => s.scen && s.step) = true ∧
    a.header.site.keyed = true := by decide

/-- two slots share a cache key only if they are the same slot -/
theorem keyOf_inj (s s' : TSite) (scn stp hk scn' stp' hk' : String)
    (hs : (s.scen && s.step) = true) (hs' : (s'.scen && s'.step) = true)
    (h : s.keyOf scn stp hk = s'.keyOf scn' stp' hk') :
    s.part = s'.part ∧ scn = scn' ∧ stp = stp' ∧ (s.keyed = true → s'.keyed = true → hk = hk') := by
  simp only [Bool.and_eq_true] at hs hs'
  simp only [TSite.keyOf, hs.1, hs.2, hs'.1, hs'.2, ↓reduceIte, TKey.mk.injEq] at h
  refine ⟨h.2.2.1, h.1, h.2.1, ?_⟩
  intro k k'
  simpa [k, k'] using h.2.2.2

/-- **the cache of the templater as regenerated is invisible** -/
theorem applies_gen {τ V : Type} (parse : String → Option τ) (exec : τ → V → String × Bool)
    (defs : String → String → TParts) (calls : List (String × String × TParts × V))
    (hf : ∀ x ∈ calls, Fits defs x.1 x.2.1 x.2.2.1) :
    runApplies Gen.C15Tmpl.applyCodeText Gen.C15Tmpl.getCodeText parse exec id [] calls =
      calls.map fun x => applyPure parse exec x.2.2.1 x.2.2.2 := by
  rw [applyCodeText_eq, getCodeText_eq]
  exact runApplies_ok parse exec defs calls [] (cacheOK_nil parse _) hf

theorem jsonpathCode_eq : Gen.C15Tmpl.jsonpathCode = jsonpathCode := by decide

/-- **`var/jsonpath` as regenerated** -/
theorem jsonpath_gen {β J V : Type} (decode : β → Option J) (get : String → J → Option V)
    (mapping : List (String × String)) (body : β) :
    runJsonpath decode get Gen.C15Tmpl.jsonpathCode mapping body = varJsonpath decode get mapping body := by
  rw [jsonpathCode_eq]; exact runJsonpath_eq decode get mapping body

end Pandora.Bridge.C15Tmpl
