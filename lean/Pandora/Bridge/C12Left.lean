import Pandora.Gen.C12Left
import Pandora.Proofs.C12Left

/-
C12, round 4 — bridge for the regenerated area `c12left` (core/schedule/composite.go): the loop of `NewComposite` that fills
`leftAfter` and the decision of `(*compositeSchedule).Left` ARE the model's `stepLeft` / `leftDecide`.  Stated semantically
(for all values; the loop body under the loop's own invariant "flag set ⇒ accumulator = −1", which is proved of the model's
loop, not assumed), so that harmless rewrites of the source (reordered independent assignments, `continue` instead of a
second `if`, renamed locals, `if unknown {…} else {…}`) keep them true while a change of what is computed breaks them.
-/
namespace Pandora.Bridge.C12Left
open Pandora.Go.C12Left Pandora.Model.C12Left

theorem loopOrder_eq : Pandora.Gen.C12Left.NewComposite_loopOrder = "lastToFirst" := rfl

theorem loopInit_eq : Pandora.Gen.C12Left.NewComposite_loopInit = ((0 : Int), false) := rfl

/-- the invariant of the loop under which the body is read: once a part behind is unknown the accumulator is −1 -/
def LoopInv (acc : Int) (unk : Bool) : Prop := unk = true → acc = -1

theorem loopBody_eq (acc : Int) (unk : Bool) (c : Int) (h : LoopInv acc unk) :
    Pandora.Gen.C12Left.NewComposite_loopBody acc unk c = stepLeft acc unk c := by
  unfold LoopInv at h
  unfold Pandora.Gen.C12Left.NewComposite_loopBody stepLeft
  by_cases hc : c < 0
  · cases unk <;> simp [hc]
  · cases unk
    · simp [hc]
    · have hacc : acc = -1 := h rfl
      subst hacc
      simp [hc]

theorem leftDecide_eq (n la l : Int) (st : Bool) :
    Pandora.Gen.C12Left.compositeSchedule_Left_decide n la l st = leftDecide n la l st := by
  unfold Pandora.Gen.C12Left.compositeSchedule_Left_decide leftDecide
  by_cases h1 : n = 1 <;> by_cases h2 : l = 0 <;> by_cases h3 : la ≥ 0 <;> by_cases h4 : l < 0 <;> cases st <;>
    simp [h1, h2, h3, h4] <;> omega

/-- the regenerated loop, run over the parts from the last to the first -/
def genLoop (cs : List Int) : List Int × Int × Bool :=
  loopWith Pandora.Gen.C12Left.NewComposite_loopBody Pandora.Gen.C12Left.NewComposite_loopInit cs

theorem loopFrom_inv (cs : List Int) : LoopInv (loopFrom cs).2.1 (loopFrom cs).2.2 := by
  obtain ⟨ha, hu⟩ := Pandora.Proofs.C12Left.loopFrom_acc cs
  intro h
  rw [hu] at h
  rw [ha]
  have := Pandora.Proofs.C12Left.seqLeft_range cs
  have hlt : seqLeft cs < 0 := by simpa using h
  omega

theorem genLoop_eq (cs : List Int) : genLoop cs = loopFrom cs := by
  induction cs with
  | nil => simp [genLoop, loopFrom, loopWith, loopInit_eq]
  | cons c rest ih =>
    have hinv := loopFrom_inv rest
    simp only [genLoop, loopFrom, loopWith] at ih hinv ⊢
    rw [ih, loopBody_eq _ _ _ hinv]

/-- a `once` / `const` part (`doAtSchedule`): tokens still to come, never negative -/
theorem doAtLeft_eq (n i : Int) : Pandora.Gen.C12Left.doAtSchedule_Left n i = max 0 (n - i) := by
  unfold Pandora.Gen.C12Left.doAtSchedule_Left
  by_cases h : n - i < 0 <;> simp [h] <;> omega

/-- an `unlimited` part: unknown until it has been started and its time is over, then 0 -/
theorem unlimitedLeft_eq (started nowBeforeFinish : Bool) :
    Pandora.Gen.C12Left.unlimitedSchedule_Left started nowBeforeFinish = if started && !nowBeforeFinish then 0 else -1 := by
  unfold Pandora.Gen.C12Left.unlimitedSchedule_Left
  cases started <;> cases nowBeforeFinish <;> simp

/-- `startNext` drops exactly the first part from `scheds` and from `leftAfter` and starts the new first part -/
theorem startNext_eq : Pandora.Gen.C12Left.startNext_drops = (1, 1, 0) := rfl

/-- `Left()` followed through its shifts, with the regenerated decision and the regenerated `startNext` -/
def genFullLeft (started : Bool) (fuel : Nat) (curs las : List Int) : Option Int :=
  fullLeftWith Pandora.Gen.C12Left.compositeSchedule_Left_decide Pandora.Gen.C12Left.startNext_drops.1
    Pandora.Gen.C12Left.startNext_drops.2.1 started fuel curs las

theorem genFullLeft_eq (started : Bool) (fuel : Nat) (curs las : List Int) :
    genFullLeft started fuel curs las = fullLeftWith leftDecide 1 1 started fuel curs las := by
  have : Pandora.Gen.C12Left.compositeSchedule_Left_decide = leftDecide := by
    funext n la l st; exact leftDecide_eq n la l st
  simp [genFullLeft, this, startNext_eq]

end Pandora.Bridge.C12Left
