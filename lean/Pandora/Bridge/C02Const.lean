/-
C02 — bridge for the arithmetic of a const part (`NewConst`, `constDoAt` of core/schedule/const.go), regenerated on
every check in `Pandora/Gen/Schedule.lean` (area `schedule`) in the FLOAT64 READING: `NewConst_fl fl`, `constDoAt_fl fl`
are the source with the result of every float operation passed through a rounding function `fl`.

`Model/C02Big.lean` computes the number of tokens and the offset of the i-th token of a const part with the float64
operations carried out in exact integer arithmetic (`F64`, `fmul`, `fdiv`, `F64.ofNat`, `ftrunc`).  This file shows: for
ANY `fl` that rounds the way `Model/C02Big.lean` does (`FlIs fl`: conversion from an integer, product and quotient of
two float64 values give the float64 value the model computes), the regenerated source IS `constCount` / `constOff`:
the same operations, rounded at the same places, in the same order, truncated once at the end.  A change of the
arithmetic of the source — a period rounded to whole nanoseconds and multiplied as an integer, an integer division, a
different association — changes `constDoAt_fl` and breaks `constOff_is_source`.  THAT `FlIs` describes the hardware
(round to nearest, ties to even) is not proved here: the driver compares every token of every drained const part of
the real code with `constOff` (`mode=seq big=1`).
-/
import Pandora.Gen.Schedule
import Pandora.Model.C02Big

set_option linter.unusedSimpArgs false
set_option linter.unusedTactic false
set_option linter.unusedVariables false

namespace Pandora.Bridge.C02Const
open Pandora Pandora.Gen.Schedule Pandora.Model.C02

/-- the real number a float64 value `m · 2^e` stands for -/
noncomputable def val (a : F64) : ℝ := (a.m : ℝ) * (2 : ℝ) ^ a.e

theorem val_nonneg (a : F64) : 0 ≤ val a := by
  unfold val
  exact mul_nonneg (Nat.cast_nonneg _) (zpow_nonneg (by norm_num) _)

/-- `fl` rounds the way `Model/C02Big.lean` computes -/
structure FlIs (fl : ℝ → ℝ) : Prop where
  ofNat : ∀ n : Nat, fl (n : ℝ) = val (F64.ofNat n)
  mul : ∀ a b : F64, fl (val a * val b) = val (fmul a b)
  div : ∀ a b : F64, b.m ≠ 0 → fl (val a / val b) = val (fdiv a b)

/-- the product with the factors written the other way round (float multiplication commutes, so
`billionDivOps * float64(i)` is the same float64 as `float64(i) * billionDivOps`) -/
theorem FlIs.mul' {fl : ℝ → ℝ} (h : FlIs fl) (a b : F64) : fl (val b * val a) = val (fmul a b) := by
  rw [mul_comm, h.mul]

/-- `int64(x)` / `time.Duration(x)` of a non-negative float64 value is `ftrunc` -/
theorem f2i_val (a : F64) : Go.f2i (val a) = ftrunc a := by
  unfold Go.f2i
  rw [if_pos (val_nonneg a)]
  obtain ⟨m, e⟩ := a
  unfold val ftrunc
  simp only
  by_cases he : e ≥ 0
  · rw [if_pos he]
    obtain ⟨k, rfl⟩ := Int.eq_ofNat_of_zero_le he
    simp only [Int.toNat_natCast, zpow_natCast, Nat.shiftLeft_eq]
    have : (m : ℝ) * (2 : ℝ) ^ k = ((m * 2 ^ k : ℕ) : ℝ) := by push_cast; ring
    rw [this, Int.floor_natCast]
  · rw [if_neg he]
    have hk : e = -((-e).toNat : ℤ) := by omega
    generalize (-e).toNat = k at hk
    subst hk
    simp only [Nat.shiftRight_eq_div_pow, zpow_neg, zpow_natCast]
    have : (m : ℝ) * ((2 : ℝ) ^ k)⁻¹ = (m : ℝ) / ((2 ^ k : ℕ) : ℝ) := by push_cast; rw [div_eq_mul_inv]
    rw [this, Int.floor_div_natCast, Int.floor_natCast]
    norm_cast

theorem billionF_eq : billionF = ⟨8388608000000000, -23⟩ := by decide

theorem billion_val : (1000000000 : ℝ) = val billionF := by
  rw [billionF_eq]
  unfold val
  norm_num

theorem billionF_ne : billionF.m ≠ 0 := by rw [billionF_eq]; decide

/-- **the offset of the i-th token of a const part**: `constDoAt(ops)(i)` of the source, every float operation rounded,
is `constOff ops i` -/
theorem constOff_is_source (fl : ℝ → ℝ) (h : FlIs fl) (ops : F64) (hops : ops.m ≠ 0) (i : Nat) :
    constDoAt_fl fl (val ops) (i : ℤ) = constOff ops (i : ℤ) := by
  unfold constDoAt_fl constOff
  schedule_aux_unfold
  simp only [Int.cast_natCast, Int.toNat_natCast]
  rw [billion_val, h.div _ _ hops, h.ofNat]
  first
    | (rw [h.mul, f2i_val]; done)
    | (rw [h.mul', f2i_val])

/-- **the number of tokens of a const part**: `NewConst(ops, duration)` of the source, every float operation rounded,
is the doAt leaf with `constCount ops duration` tokens over `constDoAt(ops)` -/
theorem constCount_is_source (fl : ℝ → ℝ) (h : FlIs fl) (ops : F64) (dur : Nat) :
    NewConst_fl fl (val ops) (dur : ℤ) = Sched.doAt (dur : ℤ) (constCount ops (dur : ℤ)) (constDoAt_fl fl (val ops)) := by
  unfold NewConst_fl constCount
  schedule_aux_unfold
  have hn : ¬ val ops < 0 := not_lt.mpr (val_nonneg ops)
  simp only [hn, if_false, Int.cast_natCast, Int.toNat_natCast]
  rw [billion_val, h.ofNat, h.div _ _ billionF_ne]
  first
    | (rw [h.mul, f2i_val]; done)
    | (rw [h.mul', f2i_val])

end Pandora.Bridge.C02Const
