import Pandora.Drv.Util
import Pandora.Drv.C01

open Pandora.Drv

def handlers : List (String × Handler) := [
  ("C01", Pandora.Drv.C01.handle)
]

partial def loop (h : IO.FS.Stream) (out : IO.FS.Stream) (f : Handler) : IO Unit := do
  let line ← h.getLine
  if line.isEmpty then return ()
  let line := (line.dropEndWhile (· == '\n')).toString
  match line.splitOn "\t" with
  | id :: input :: rest =>
      let impl := rest.headD ""
      let (m, v) := f input impl
      out.putStrLn s!"{id}\t{m}\t{v}"
  | _ => out.putStrLn s!"?\t-\tfail:driver:bad line"
  loop h out f

def main (args : List String) : IO UInt32 := do
  match args with
  | [pid] =>
    match handlers.find? (·.1 == pid) with
    | some (_, f) =>
        let out ← IO.getStdout
        loop (← IO.getStdin) out f
        out.flush
        return 0
    | none => IO.eprintln s!"no model driver for {pid}"; return 2
  | _ => IO.eprintln "usage: pandora-model <PROP> < cases.tsv"; return 2
