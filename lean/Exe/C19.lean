import Pandora.Drv.Main
import Pandora.Drv.C19

def main : IO UInt32 := Pandora.Drv.runMain Pandora.Drv.C19.handle
