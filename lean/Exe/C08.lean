import Pandora.Drv.Main
import Pandora.Drv.C08

def main : IO UInt32 := Pandora.Drv.runMain Pandora.Drv.C08.handle
