import Pandora.Drv.Main
import Pandora.Drv.C17

def main : IO UInt32 := Pandora.Drv.runMain Pandora.Drv.C17.handle
