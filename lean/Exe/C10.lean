import Pandora.Drv.Main
import Pandora.Drv.C10

def main : IO UInt32 := Pandora.Drv.runMain Pandora.Drv.C10.handle
