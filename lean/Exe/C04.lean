import Pandora.Drv.Main
import Pandora.Drv.C04

def main : IO UInt32 := Pandora.Drv.runMain Pandora.Drv.C04.handle
