import Pandora.Drv.Main
import Pandora.Drv.C07

def main : IO UInt32 := Pandora.Drv.runMain Pandora.Drv.C07.handle
