import Pandora.Drv.Main
import Pandora.Drv.C02

def main : IO UInt32 := Pandora.Drv.runMain Pandora.Drv.C02.handle
