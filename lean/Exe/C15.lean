import Pandora.Drv.Main
import Pandora.Drv.C15

def main : IO UInt32 := Pandora.Drv.runMain Pandora.Drv.C15.handle
