import Pandora.Drv.Main
import Pandora.Drv.C05

def main : IO UInt32 := Pandora.Drv.runMain Pandora.Drv.C05.handle
