import Pandora.Drv.Main
import Pandora.Drv.C11

def main : IO UInt32 := Pandora.Drv.runMain Pandora.Drv.C11.handle
