import Pandora.Drv.Main
import Pandora.Drv.C18

def main : IO UInt32 := Pandora.Drv.runMain Pandora.Drv.C18.handle
