import Pandora.Drv.Main
import Pandora.Drv.C16

def main : IO UInt32 := Pandora.Drv.runMain Pandora.Drv.C16.handle
