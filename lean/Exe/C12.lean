import Pandora.Drv.Main
import Pandora.Drv.C12

def main : IO UInt32 := Pandora.Drv.runMain Pandora.Drv.C12.handle
