import Pandora.Drv.Main
import Pandora.Drv.C09

def main : IO UInt32 := Pandora.Drv.runMain Pandora.Drv.C09.handle
