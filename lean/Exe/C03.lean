import Pandora.Drv.Main
import Pandora.Drv.C03

def main : IO UInt32 := Pandora.Drv.runMain Pandora.Drv.C03.handle
