import Pandora.Drv.Main
import Pandora.Drv.C06

def main : IO UInt32 := Pandora.Drv.runMain Pandora.Drv.C06.handle
