import Pandora.Drv.Main
import Pandora.Drv.C20

def main : IO UInt32 := Pandora.Drv.runMain Pandora.Drv.C20.handle
