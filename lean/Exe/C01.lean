import Pandora.Drv.Main
import Pandora.Drv.C01

def main : IO UInt32 := Pandora.Drv.runMain Pandora.Drv.C01.handle
