import Pandora.Drv.Main
import Pandora.Drv.C13

def main : IO UInt32 := Pandora.Drv.runMain Pandora.Drv.C13.handle
