import Pandora.Drv.Main
import Pandora.Drv.C14

def main : IO UInt32 := Pandora.Drv.runMain Pandora.Drv.C14.handle
