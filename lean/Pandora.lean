-- Root of the `Pandora` library: every property module (theorems) is imported here so that
-- `lake build Pandora` re-checks all of them.
import Pandora.Props.C01
