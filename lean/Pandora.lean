-- This module serves as the root of the `Pandora` library.
-- Import modules here that should be built as part of the library.
import Pandora.Basic
